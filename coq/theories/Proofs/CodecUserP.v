(* Proofs about Model/CodecUser.v: round trip, announced length, inversion (accepted values are
   well-formed) and totality for every UserOperation and for daemon::Report. *)
From CFDP Require Import Base.Prelude Model.PduUser Model.CodecBase Model.Codec Model.CodecUser
  Proofs.EnumsP Proofs.CodecBaseP Proofs.CodecP.

(* ------------------------------------------------------------------ id pairs *)

Lemma id_lens_fields s q :
  bits (id_lens_byte s q) 112 4 + 1 = varid_len s /\ bits (id_lens_byte s q) 7 0 + 1 = varid_len q.
Proof. destruct s, q; vm_compute; split; reflexivity. Qed.

Lemma id_pair_blen s q : blen (id_pair_encode s q) = 1 + varid_len s + varid_len q.
Proof. unfold id_pair_encode. rewrite blen_cons, blen_app, !varid_be_blen. lia. Qed.

Lemma id_pair_rt s q r :
  wf_varid s -> wf_varid q -> read_id_pair (id_pair_encode s q ++ r) = Ok ((s, q), r).
Proof.
  intros Hs Hq. unfold read_id_pair, id_pair_encode. norm_app. rewrite read_u8_cons. cbn [bind].
  destruct (id_lens_fields s q) as [A B]. rewrite A, B.
  rewrite read_varid_app by exact Hs. cbn [bind]. rewrite read_varid_app by exact Hq. reflexivity.
Qed.

Lemma id_pair_ok b s q r :
  is_bytes b -> read_id_pair b = Ok ((s, q), r) ->
  wf_varid s /\ wf_varid q /\ is_bytes r /\ 1 + varid_len s + varid_len q + blen r = blen b.
Proof.
  intros Hb H. unfold read_id_pair in H. inv_ok H. repeat ok_step1. splits; auto. lia.
Qed.

Lemma id_pair_nopanic b : is_bytes b -> read_id_pair b <> Panic.
Proof.
  intros Hb. unfold read_id_pair. np_step.
  match goal with Hx : ?x < 256 |- _ => destruct (bits_b3_bounds x Hx) as [B1 B2] end.
  np_step. np_step. np_done.
Qed.

(* ------------------------------------------------------------------ LV-wrapped ids, one-byte enums *)

Lemma lv_id_blen i : blen (lv_id_encode i) = 1 + varid_len i.
Proof. unfold lv_id_encode. rewrite blen_cons, varid_be_blen. reflexivity. Qed.

Lemma lv_id_rt i r : wf_varid i -> read_lv_id (lv_id_encode i ++ r) = Ok (i, r).
Proof.
  intros Hi. unfold read_lv_id, lv_id_encode, read_lv. cbn [app]. rewrite read_u8_cons. cbn [bind].
  rewrite read_exact_app by (rewrite ?varid_be_blen; pose proof (varid_len_pos i); auto; lia).
  cbn [bind]. rewrite varid_of_bytes_be by exact Hi. reflexivity.
Qed.

Lemma lv_id_ok b i r :
  is_bytes b -> read_lv_id b = Ok (i, r) -> wf_varid i /\ is_bytes r /\ 1 + varid_len i + blen r = blen b.
Proof.
  intros Hb H. unfold read_lv_id in H. inv_ok H. repeat ok_step1.
  match goal with Hc : is_bytes ?c, E : varid_of_bytes ?c = Ok _ |- _ =>
    apply (varid_of_bytes_ok _ _ Hc) in E as (? & ?) end.
  splits; auto. lia.
Qed.

Lemma lv_id_nopanic b : is_bytes b -> read_lv_id b <> Panic.
Proof.
  intros Hb. unfold read_lv_id. np_step.
  apply bind_nopanic; [|np_done].
  unfold varid_of_bytes. match goal with |- match length ?c with _ => _ end <> _ =>
    destruct (length c) as [|[|[|[|[|[|[|[|[|n']]]]]]]]] end; discriminate.
Qed.

Lemma read_enum_rt {A} (from : N -> option A) (to : A -> N) x r :
  from (to x) = Some x -> read_enum from (to x :: r) = Ok (x, r).
Proof. intros H. unfold read_enum. rewrite read_u8_cons. cbn [bind]. rewrite H. reflexivity. Qed.

Lemma read_enum_ok {A} (from : N -> option A) b x r :
  is_bytes b -> read_enum from b = Ok (x, r) -> is_bytes r /\ 1 + blen r = blen b.
Proof. intros Hb H. unfold read_enum in H. inv_ok H. repeat ok_step1. auto. Qed.

Lemma read_enum_nopanic {A} (from : N -> option A) b : read_enum from b <> Panic.
Proof. unfold read_enum. np_auto. Qed.

Lemma skip_len_rt x r : skip_len_byte (x :: r) = Ok (tt, r).
Proof. reflexivity. Qed.
Lemma skip_len_ok b u r : is_bytes b -> skip_len_byte b = Ok (u, r) -> is_bytes r /\ 1 + blen r = blen b.
Proof. intros Hb H. unfold skip_len_byte in H. inv_ok H. repeat ok_step1. auto. Qed.
Lemma skip_len_nopanic b : skip_len_byte b <> Panic.
Proof. unfold skip_len_byte. np_auto. Qed.

Ltac ok_step2 :=
  first
  [ ok_step1
  | match goal with
    | Hb : is_bytes ?b, E : read_id_pair ?b = Ok (?p, _) |- _ =>
        destruct p; apply (id_pair_ok _ _ _ _ Hb) in E; destruct E as (? & ? & ? & ?)
    | Hb : is_bytes ?b, E : read_lv_id ?b = Ok _ |- _ =>
        apply (lv_id_ok _ _ _ Hb) in E; destruct E as (? & ? & ?)
    | Hb : is_bytes ?b, E : read_enum _ ?b = Ok _ |- _ =>
        apply (read_enum_ok _ _ _ _ Hb) in E; destruct E as (? & ?)
    | Hb : is_bytes ?b, E : skip_len_byte ?b = Ok _ |- _ =>
        apply (skip_len_ok _ _ _ Hb) in E; destruct E as (? & ?)
    end ].

Ltac np_leaf2 :=
  first [ apply id_pair_nopanic; assumption | apply lv_id_nopanic; assumption
        | apply read_enum_nopanic | apply skip_len_nopanic | apply handler_nopanic
        | apply fs_request_nopanic; assumption | apply fs_response_nopanic; assumption ].
Ltac np_step2 :=
  apply bind_nopanic;
  [ first [ np_leaf | np_leaf2 ]
  | let x := fresh "x" in let E := fresh "E" in intros x E;
    match type of x with (_ * _)%type => destruct x as [? ?] | _ => idtac end;
    repeat ok_step2 ].
Ltac np_auto2 := repeat np_step2; try np_done.

(* ------------------------------------------------------------------ responses *)

Lemma put_response_b c d s :
  let x := put_response_byte c d s in
  Condition_from_u8 (bits x 240 4) = Some c /\
  DeliveryCode_from_u8 (bits x 4 2) = Some d /\
  FileStatusCode_from_u8 (bits x 3 0) = Some s.
Proof. destruct c, d, s; vm_compute; splits; reflexivity. Qed.

Lemma status_response_b st code :
  let x := N.lor (N.shiftl (TransactionStatus_to_u8 st) 6) (bool_u8 code) in
  TransactionStatus_from_u8 (bits x 192 6) = Some st /\ bool_of_bit (bits x 1 0) = code.
Proof. destruct st, code; vm_compute; split; reflexivity. Qed.

Lemma suspend_b ind st :
  let x := N.lor (N.shiftl (bool_u8 ind) 7) (N.shiftl (TransactionStatus_to_u8 st) 5) in
  bool_of_bit (bits x 128 7) = ind /\ TransactionStatus_from_u8 (bits x 96 5) = Some st.
Proof. destruct ind, st; vm_compute; split; reflexivity. Qed.

Lemma suspend_like_rt mk ind st s q r :
  wf_varid s -> wf_varid q ->
  suspend_like_decode 96 mk
    (N.lor (N.shiftl (bool_u8 ind) 7) (N.shiftl (TransactionStatus_to_u8 st) 5) :: id_pair_encode s q ++ r)
  = Ok (mk ind st s q, r).
Proof.
  intros Hs Hq. unfold suspend_like_decode. rewrite read_u8_cons. cbn [bind].
  destruct (suspend_b ind st) as [A B]. cbv zeta in *. rewrite A, B. cbn [of_option bind].
  rewrite id_pair_rt by assumption. reflexivity.
Qed.

(* ------------------------------------------------------------------ SFO request / report *)

Lemma sfo_request_b q :
  let x := sfo_request_first_byte q in
  TraceControl_from_u8 (bits x 192 6) = Some (sq_trace_control q) /\
  TransmissionMode_from_u8 (bits x 32 5) = Some (sq_transmission_mode q) /\
  SegmentationControl_from_u8 (bits x 16 4) = Some (sq_segment_control q) /\
  bool_of_bit (bits x 8 3) = sq_closure_request q.
Proof. destruct q as [t m s c ? ? ? ? ? ?]; destruct t, m, s, c; vm_compute; splits; reflexivity. Qed.

Lemma sfo_report_b p :
  let x := sfo_report_last_byte p in
  Condition_from_u8 (bits x 240 4) = Some (sr_condition p) /\
  Direction_from_u8 (bits x 8 3) = Some (sr_direction p) /\
  DeliveryCode_from_u8 (bits x 4 2) = Some (sr_delivery_code p) /\
  FileStatusCode_from_u8 (bits x 3 0) = Some (sr_file_status p).
Proof. destruct p as [? ? ? ? ? ? c d dc fs]; destruct c, d, dc, fs; vm_compute; splits; reflexivity. Qed.

Lemma sfo_request_len q : blen (sfo_request_encode q) = sfo_request_encoded_len q.
Proof.
  unfold sfo_request_encode, sfo_request_encoded_len.
  rewrite !blen_cons, !blen_app, !lv_encode_blen, !lv_id_blen. lia.
Qed.

Lemma sfo_request_rt q r : wf_sfo_request q -> sfo_request_decode (sfo_request_encode q ++ r) = Ok (q, r).
Proof.
  intros (Hp & (_ & Hl) & Hs & Hd & ((_ & L1) & U1) & ((_ & L2) & U2)).
  destruct (sfo_request_b q) as (A1 & A2 & A3 & A4). cbv zeta in *.
  unfold sfo_request_decode, sfo_request_encode. norm_app.
  rewrite read_u8_cons. cbn [bind]. rewrite A1, A2, A3, A4. cbn [of_option bind].
  rewrite read_u8_cons. cbn [bind].
  rewrite read_lv_app by exact Hl. cbn [bind].
  rewrite lv_id_rt by exact Hs. cbn [bind]. rewrite lv_id_rt by exact Hd. cbn [bind].
  rewrite read_name_app by assumption. cbn [bind].
  rewrite read_name_app by assumption. cbn [bind]. destruct q; reflexivity.
Qed.

Lemma sfo_request_ok b q r :
  is_bytes b -> sfo_request_decode b = Ok (q, r) ->
  wf_sfo_request q /\ is_bytes r /\ sfo_request_encoded_len q + blen r = blen b.
Proof.
  intros Hb H. unfold sfo_request_decode in H. inv_ok H. repeat ok_step2.
  unfold wf_sfo_request, sfo_request_encoded_len, wf_lv.
  cbn [sq_prior_waypoints_count sq_request_label sq_source_entity_id sq_destination_entity_id
       sq_source_filename sq_destination_filename].
  splits; auto using wf_name_intro; lia.
Qed.

Lemma sfo_request_nopanic b : is_bytes b -> sfo_request_decode b <> Panic.
Proof. intros Hb. unfold sfo_request_decode. np_auto2. Qed.

Lemma sfo_report_len p : blen (sfo_report_encode p) = sfo_report_encoded_len p.
Proof.
  unfold sfo_report_encode, sfo_report_encoded_len.
  rewrite !blen_app, !blen_cons, blen_nil, !lv_encode_blen, !lv_id_blen. lia.
Qed.

Lemma sfo_report_rt p r : wf_sfo_report p -> sfo_report_decode (sfo_report_encode p ++ r) = Ok (p, r).
Proof.
  intros ((_ & Hl) & Hs & Hd & Hr & _ & _).
  destruct (sfo_report_b p) as (A1 & A2 & A3 & A4). cbv zeta in *.
  unfold sfo_report_decode, sfo_report_encode. norm_app.
  rewrite read_lv_app by exact Hl. cbn [bind].
  rewrite lv_id_rt by exact Hs. cbn [bind]. rewrite lv_id_rt by exact Hd. cbn [bind].
  rewrite lv_id_rt by exact Hr. cbn [bind].
  rewrite !read_u8_cons. cbn [bind]. rewrite read_u8_cons. cbn [bind]. rewrite read_u8_cons. cbn [bind].
  rewrite A1, A2, A3, A4. cbn [of_option bind]. destruct p; reflexivity.
Qed.

Lemma sfo_report_ok b p r :
  is_bytes b -> sfo_report_decode b = Ok (p, r) ->
  wf_sfo_report p /\ is_bytes r /\ sfo_report_encoded_len p + blen r = blen b.
Proof.
  intros Hb H. unfold sfo_report_decode in H. inv_ok H. repeat ok_step2.
  unfold wf_sfo_report, sfo_report_encoded_len, wf_lv.
  cbn [sr_request_label sr_source_entity_id sr_destination_entity_id sr_reporting_entity_id
       sr_prior_waypoints sr_report_code].
  splits; auto; lia.
Qed.

Lemma sfo_report_nopanic b : is_bytes b -> sfo_report_decode b <> Panic.
Proof. intros Hb. unfold sfo_report_decode. np_auto2. Qed.

(* ------------------------------------------------------------------ UserOperation *)

Lemma with_len_byte_blen m : blen (with_len_byte m) = 1 + blen m.
Proof. unfold with_len_byte. apply blen_cons. Qed.

Lemma uo_body_len u : blen (uo_body_encode u) = uo_encoded_len u - 5.
Proof.
  unfold uo_encoded_len.
  destruct u as [s q|p|p|p|q|m|v|c|q|p|p]; cbn [uo_body_encode].
  - rewrite id_pair_blen. lia.
  - destruct p; cbn [proxy_encode proxy_encoded_len];
      rewrite ?blen_app, ?lv_id_blen, ?lv_encode_blen, ?with_len_byte_blen, ?fs_request_len,
        ?blen_cons, ?blen_nil; lia.
  - destruct p; cbn [response_encode response_encoded_len];
      rewrite ?blen_cons, ?blen_app, ?lv_encode_blen, ?with_len_byte_blen, ?fs_response_len,
        ?id_pair_blen, ?blen_nil; lia.
  - destruct p; cbn [request_encode request_encoded_len];
      rewrite ?blen_app, ?lv_encode_blen, ?id_pair_blen; lia.
  - rewrite sfo_request_len. lia.
  - rewrite lv_encode_blen. lia.
  - rewrite lv_encode_blen. lia.
  - rewrite blen_cons, blen_nil. lia.
  - rewrite with_len_byte_blen, fs_request_len. lia.
  - rewrite with_len_byte_blen, fs_response_len. lia.
  - rewrite sfo_report_len. lia.
Qed.

Lemma uo_len_holds u : blen (uo_encode u) = uo_encoded_len u.
Proof.
  unfold uo_encode. rewrite blen_app, blen_cons, uo_body_len.
  change (blen user_ops_identifier) with (blen [99; 102; 100; 112]).
  rewrite !blen_cons, blen_nil. unfold uo_encoded_len. lia.
Qed.

Lemma ident_eqb : bytes_eqb user_ops_identifier user_ops_identifier = true.
Proof. vm_compute. reflexivity. Qed.

(* the common prefix of UserOperation::decode: identifier and message type *)
Ltac uo_start :=
  unfold uo_decode, uo_decode_with, uo_encode; rewrite <- app_assoc;
  rewrite read_exact_app by (vm_compute; first [reflexivity | discriminate]); cbn [bind];
  rewrite ident_eqb; cbn [negb app]; rewrite read_u8_cons; cbn [bind];
  rewrite MessageType_rt; cbn [of_option bind].

Lemma uo_rt_holds u r : wf_uo u -> uo_decode (uo_encode u ++ r) = Ok (u, r).
Proof.
  intros Hw. uo_start.
  destruct u as [s q|p|p|p|q|m|v|c|q|p|p]; cbn [wf_uo uo_message_type uo_body_encode] in *.
  - destruct Hw as [Hs Hq]. rewrite id_pair_rt by assumption. reflexivity.
  - destruct p as [d s t|m|q|c|m|v|c|]; cbn [wf_proxy proxy_message_type proxy_encode] in *.
    + destruct Hw as (Hd & ((_ & L1) & U1) & ((_ & L2) & U2)). norm_app.
      rewrite lv_id_rt by exact Hd. cbn [bind].
      rewrite read_name_app by assumption. cbn [bind].
      rewrite read_name_app by assumption. reflexivity.
    + destruct Hw as [_ Hl]. rewrite read_lv_app by exact Hl. reflexivity.
    + unfold with_len_byte. cbn [app]. rewrite skip_len_rt. cbn [bind].
      rewrite fs_request_rt by exact Hw. reflexivity.
    + cbn [app]. rewrite handler_rt. reflexivity.
    + cbn [app]. rewrite (read_enum_rt TransmissionMode_from_u8 TransmissionMode_to_u8) by apply TransmissionMode_rt.
      reflexivity.
    + destruct Hw as [_ Hl]. rewrite read_lv_app by exact Hl. reflexivity.
    + cbn [app]. rewrite (read_enum_rt SegmentationControl_from_u8 SegmentationControl_to_u8) by apply SegmentationControl_rt.
      reflexivity.
    + reflexivity.
  - destruct p as [c d s|p|c d f|st code s q|ind st s q|ind st s q];
      cbn [wf_response response_message_type response_encode] in *.
    + cbn [app]. unfold put_response_decode. rewrite read_u8_cons. cbn [bind].
      destruct (put_response_b c d s) as (A1 & A2 & A3). cbv zeta in *. rewrite A1, A2, A3. reflexivity.
    + unfold with_len_byte. cbn [app]. rewrite skip_len_rt. cbn [bind].
      rewrite fs_response_rt by exact Hw. reflexivity.
    + destruct Hw as (((_ & L1) & U1) & ((_ & L2) & U2)). norm_app.
      unfold listing_response_decode. rewrite read_u8_cons. cbn [bind].
      rewrite ListingResponseCode_rt. cbn [of_option bind].
      rewrite read_name_app by assumption. cbn [bind].
      rewrite read_name_app by assumption. reflexivity.
    + destruct Hw as [Hs Hq]. cbn [app]. unfold status_response_decode. rewrite read_u8_cons. cbn [bind].
      destruct (status_response_b st code) as (A1 & A2). cbv zeta in *. rewrite A1, A2. cbn [of_option bind].
      rewrite id_pair_rt by assumption. reflexivity.
    + destruct Hw as [Hs Hq]. cbn [app]. rewrite suspend_like_rt by assumption. reflexivity.
    + destruct Hw as [Hs Hq]. cbn [app]. rewrite suspend_like_rt by assumption. reflexivity.
  - destruct p as [d f|s q f|s q|s q]; cbn [wf_request request_message_type request_encode] in *.
    + destruct Hw as (((_ & L1) & U1) & ((_ & L2) & U2)). norm_app. unfold listing_request_decode.
      rewrite read_name_app by assumption. cbn [bind]. rewrite read_name_app by assumption. reflexivity.
    + destruct Hw as (Hs & Hq & ((_ & L1) & U1)). rewrite <- app_assoc. unfold status_request_decode.
      rewrite id_pair_rt by assumption. cbn [bind fst snd]. rewrite read_name_app by assumption. reflexivity.
    + destruct Hw as [Hs Hq]. rewrite id_pair_rt by assumption. reflexivity.
    + destruct Hw as [Hs Hq]. rewrite id_pair_rt by assumption. reflexivity.
  - rewrite sfo_request_rt by exact Hw. reflexivity.
  - destruct Hw as [_ Hl]. rewrite read_lv_app by exact Hl. reflexivity.
  - destruct Hw as [_ Hl]. rewrite read_lv_app by exact Hl. reflexivity.
  - cbn [app]. rewrite handler_rt. reflexivity.
  - unfold with_len_byte. cbn [app]. rewrite skip_len_rt. cbn [bind].
    rewrite fs_request_rt by exact Hw. reflexivity.
  - unfold with_len_byte. cbn [app]. rewrite skip_len_rt. cbn [bind].
    rewrite fs_response_rt by exact Hw. reflexivity.
  - rewrite sfo_report_rt by exact Hw. reflexivity.
Qed.

Ltac ok_step3 :=
  first
  [ ok_step2
  | match goal with
    | Hb : is_bytes ?b, E : sfo_request_decode ?b = Ok _ |- _ =>
        apply (sfo_request_ok _ _ _ Hb) in E; destruct E as (? & ? & ?)
    | Hb : is_bytes ?b, E : sfo_report_decode ?b = Ok _ |- _ =>
        apply (sfo_report_ok _ _ _ Hb) in E; destruct E as (? & ? & ?)
    end ].

Lemma uo_ok_with mask b u r :
  is_bytes b -> uo_decode_with mask b = Ok (u, r) ->
  wf_uo u /\ is_bytes r /\ uo_encoded_len u + blen r = blen b.
Proof.
  intros Hb H. unfold uo_decode_with in H.
  apply bind_ok in H as ([ident r0] & E & H). repeat ok_step3.
  destruct (negb (bytes_eqb ident user_ops_identifier)); [discriminate H|].
  inv_ok H. repeat ok_step3.
  match goal with x : MessageType |- _ => destruct x end; try discriminate H;
    unfold put_response_decode, listing_response_decode, status_response_decode, suspend_like_decode,
      listing_request_decode, status_request_decode in H;
    inv_ok H; repeat ok_step3;
    repeat (match goal with E : bind _ _ = Ok _ |- _ => inv_ok E end; repeat ok_step3);
    unfold uo_encoded_len;
    cbn [wf_uo wf_proxy wf_response wf_request proxy_encoded_len response_encoded_len
         request_encoded_len fst snd];
    unfold wf_lv; splits; auto using wf_name_intro; try lia.
Qed.

Lemma uo_ok_holds b u r :
  is_bytes b -> uo_decode b = Ok (u, r) ->
  wf_uo u /\ is_bytes r /\ uo_encoded_len u + blen r = blen b.
Proof. apply uo_ok_with. Qed.

Ltac np_rec :=
  lazymatch goal with
  | |- bind _ _ <> Panic =>
      apply bind_nopanic;
      [ first [ np_leaf | np_leaf2 | apply sfo_request_nopanic; assumption
              | apply sfo_report_nopanic; assumption | np_rec ]
      | let x := fresh "x" in let E := fresh "E" in intros x E;
        match type of x with (_ * _)%type => destruct x as [? ?] | _ => idtac end;
        repeat ok_step3; np_rec ]
  | |- _ => np_done
  end.

Lemma uo_nopanic_with mask b : is_bytes b -> uo_decode_with mask b <> Panic.
Proof.
  intros Hb. unfold uo_decode_with. np_step2.
  match goal with |- (if ?c then _ else _) <> _ => destruct c end; [discriminate|].
  np_step2. np_step2.
  match goal with x : MessageType |- _ => destruct x end; try discriminate;
    unfold put_response_decode, listing_response_decode, status_response_decode, suspend_like_decode,
      listing_request_decode, status_request_decode;
    np_rec.
Qed.

Lemma uo_nopanic_holds b : is_bytes b -> uo_decode b <> Panic.
Proof. apply uo_nopanic_with. Qed.

(* accepted user operations are canonical *)
Lemma uo_canonical_holds b u r :
  is_bytes b -> uo_decode b = Ok (u, r) ->
  wf_uo u /\ forall r', uo_decode (uo_encode u ++ r') = Ok (u, r').
Proof.
  intros Hb H. destruct (uo_ok_holds _ _ _ Hb H) as (Hw & _ & _).
  split; [exact Hw | intros r'; apply uo_rt_holds; exact Hw].
Qed.

(* ------------------------------------------------------------------ daemon::Report *)

Lemma report_len_holds p : blen (report_encode p) = report_encoded_len p.
Proof.
  unfold report_encode, report_encoded_len.
  rewrite !blen_app, !varid_encode_blen, !blen_cons, blen_nil. lia.
Qed.

Lemma report_rt_holds p r : wf_report p -> report_decode (report_encode p ++ r) = Ok (p, r).
Proof.
  destruct p as [e s st ts c]. unfold wf_report. cbn [rp_entity rp_sequence]. intros [He Hs].
  unfold report_decode, report_encode. cbn [rp_entity rp_sequence rp_state rp_status rp_condition].
  norm_app. rewrite varid_decode_rt by exact He. cbn [bind].
  rewrite varid_decode_rt by exact Hs. cbn [bind].
  rewrite (read_enum_rt TransactionState_from_u8 TransactionState_to_u8) by apply TransactionState_rt. cbn [bind].
  rewrite (read_enum_rt TransactionStatus_from_u8 TransactionStatus_to_u8) by apply TransactionStatus_rt. cbn [bind].
  rewrite (read_enum_rt Condition_from_u8 Condition_to_u8) by apply Condition_rt. cbn [bind].
  reflexivity.
Qed.

Lemma report_ok_holds b p r :
  is_bytes b -> report_decode b = Ok (p, r) ->
  wf_report p /\ is_bytes r /\ report_encoded_len p + blen r = blen b.
Proof.
  intros Hb H. unfold report_decode in H. inv_ok H. repeat ok_step3.
  unfold wf_report, report_encoded_len. cbn [rp_entity rp_sequence]. splits; auto. lia.
Qed.

Lemma report_nopanic_holds b : is_bytes b -> report_decode b <> Panic.
Proof. intros Hb. unfold report_decode. np_rec. Qed.

(* ------------------------------------------------------------------ history (Module PinnedUser) *)

(* user_ops.rs `& 0x3` on the id-length nibbles: an 8-byte id is announced as a 4-byte one *)
Example pinned_id_lens_refuted :
  wf_varid (VU64 72623859790382856) /\ wf_varid (VU64 9) /\
  read_id_pair (PinnedUser.id_pair_encode (VU64 72623859790382856) (VU64 9))
  = Ok ((VU32 16909060, VU32 84281096), [0; 0; 0; 0; 0; 0; 0; 9]).
Proof. splits; [cbn; unfold two64; lia | cbn; unfold two64; lia | vm_compute; reflexivity]. Qed.

(* RemoteResumeResponse::decode `(first_byte & 0x30) >> 5`: the status loses its high bit *)
Example pinned_resume_status_refuted :
  let u := Uo_Response (Rs_RemoteResume false TransactionStatus_Terminated (VU8 0) (VU8 90)) in
  wf_uo u /\ PinnedUser.uo_decode (uo_encode u)
             = Ok (Uo_Response (Rs_RemoteResume false TransactionStatus_Undefined (VU8 0) (VU8 90)), []).
Proof. cbv zeta. split; [cbn; lia | vm_compute; reflexivity]. Qed.
