(* C04: after a successful delivery no later output reports a file-integrity failure. *)
From CFDP Require Import Base.Prelude Model.Segments Model.Timer Model.TxTypes Model.Recv
  Proofs.SegmentsP Proofs.Tac Proofs.RecvP.

Section RecvP4.
Variable FS : Type.
Variable fs_write_file : FS -> bytes -> bytes -> option FS.
Variable fs_exec : FS -> fsreq -> FS * fsresp.
Variable resp_fail : fsresp -> bool.
Variable not_performed : fsreq -> fsresp.
Variable cksum : cktype -> bytes -> N.
Variable resp_len : fsresp -> N.
Variable req_len : fsreq -> N.

Notation rstate := (rstate FS).
Notation rstep := (rstep FS fs_write_file fs_exec resp_fail not_performed cksum resp_len req_len).
Notation process_pdu := (process_pdu FS fs_write_file fs_exec resp_fail not_performed cksum).
Notation check_finished := (check_finished FS fs_write_file fs_exec resp_fail not_performed cksum).
Notation send_pdu := (send_pdu resp_len req_len).
Notation not_recv := (@not_recv FS).

(* handle_fault returns a pair *)
Ltac callhf J lem side :=
  match goal with
  | |- context [handle_fault ?now ?c ?x] => nomatch x;
      let Hx := fresh "Hx" in assert (Hx : J x) by solveJ J;
      let K := fresh "K" in pose proof (lem now c x ltac:(side) Hx) as K;
      let r := fresh "r" in let b := fresh "b" in
      destruct (handle_fault now c x) as [r b]; cbn [fst snd] in K; clear Hx
  end.

(* ---- C04: after a successful delivery no later output reports a file-integrity failure ---- *)
Definition bad (c : cond) : Prop := c = FileChecksumFailure \/ c = FilesizeError.
Definition clean (o : out) : Prop :=
  match o with
  | OInd (IFault c _) => ~ bad c
  | OInd (IFinished r _ _ _) => ~ bad (rp_cond r)
  | OPdu p => match o_payload p with PFinished f => ~ bad (fin_cond f) | _ => True end
  | _ => True
  end.
Definition fin_clean (s : rstate) : Prop :=
  match r_fin s with Some (f, _) => ~ bad (fin_cond f) | None => True end.
Definition J4 (s : rstate) : Prop :=
  not_recv s /\ ~ bad (r_cond s) /\ fin_clean s /\ Forall clean (r_out s).

Ltac rew_hyps := repeat match goal with
  | E : ?x = _, H : context [match ?x with _ => _ end] |- _ => rewrite E in H
  | E : ?x = _ |- context [match ?x with _ => _ end] => rewrite E
  end.
Ltac j4fin := rew_hyps; unfold bad in *; intuition (auto; try congruence; try discriminate).
Ltac j4 := unfold J4, fin_clean, not_recv, clean in *; cbn in *; j4fin;
  repeat (match goal with |- Forall _ (_ :: _) => constructor; cbn end); j4fin; cbn; j4fin.

Lemma J4_shutdown now s : J4 s -> J4 (shutdown now s).
Proof. intros. unfold shutdown. j4. Qed.
Lemma J4_abandon now s : J4 s -> J4 (abandon now s).
Proof. intros. unfold abandon. j4. Qed.
Lemma J4_suspend now s : J4 s -> J4 (suspend now s).
Proof. intros. unfold suspend. j4. Qed.
Lemma J4_cancel_ now s : J4 s -> J4 (cancel_ now s).
Proof.
  intros H. unfold cancel_. destruct (cfg_mode _) eqn:Em; [|destruct (closure _) eqn:Ec]; j4.
Qed.

Definition timer_cond (c : cond) : Prop :=
  c = InactivityDetected \/ c = PositiveLimitReached \/ c = NakLimitReached \/ c = CancelReceived.

Lemma J4_handle_fault now c s : timer_cond c -> J4 s -> J4 (fst (handle_fault now c s)).
Proof.
  intros Hc H. unfold handle_fault.
  assert (H1 : J4 (emit_ind (IFault c (r_recvd (set_r_cond c s))) (set_r_cond c s))).
  { unfold timer_cond in Hc. j4. }
  destruct (handler _ c); cbn [fst].
  - apply J4_cancel_; exact H1.
  - apply J4_suspend; exact H1.
  - exact H1.
  - apply J4_abandon; exact H1.
Qed.

Ltac tc := unfold timer_cond; auto.
Ltac pass4 := repeat (first [ callhf J4 J4_handle_fault tc | call2 J4 (@abandon FS) J4_abandon
                            | call2 J4 (@cancel_ FS) J4_cancel_ | destr_inner ]; cbn [fst snd]); j4.

Lemma J4_send_naks now s : J4 s -> J4 (send_naks resp_len req_len now s).
Proof. intros H. unfold send_naks, c_limit_reached. pass4. Qed.


Lemma J4_send_ack_eof s : J4 s -> J4 (send_ack_eof resp_len req_len s).
Proof. intros H. unfold send_ack_eof, emit_pdu. pass4. Qed.

Lemma J4_send_finished now s : J4 s -> J4 (send_finished resp_len req_len now s).
Proof. intros H. unfold send_finished, set_fin_flag, emit_pdu. pass4. Qed.

Lemma J4_answer_prompt now s : J4 s -> J4 (answer_prompt resp_len req_len now s).
Proof.
  intros H. unfold answer_prompt, emit_pdu. destruct (r_prompt s) as [[|]|]; [| j4 | j4].
  apply J4_send_naks. j4.
Qed.

Lemma J4_send_pdu now s : J4 s -> J4 (send_pdu now s).
Proof.
  intros H. unfold Recv.send_pdu.
  pose proof (J4_answer_prompt now s H). pose proof (J4_send_ack_eof s H).
  pose proof (J4_send_naks now s H). pose proof (J4_send_finished now s H).
  repeat destr_inner; auto.
Qed.

Lemma J4_resume now s : J4 s -> J4 (resume now s).
Proof. intros H. unfold resume. pass4. Qed.

Lemma J4_cancel now s : J4 s -> J4 (cancel now s).
Proof. intros H. unfold cancel. apply J4_cancel_. j4. Qed.

Lemma J4_send_report s : J4 s -> J4 (send_report s).
Proof. intros H. unfold send_report. j4. Qed.

Lemma J4_ht_delayed now s : J4 s -> J4 (ht_delayed now s).
Proof.
  intros H. unfold ht_delayed. destruct (expire_delayed now (r_delayed s)) as [expired rest]. pass4.
Qed.

Lemma J4_ht_inactivity now s : J4 s -> J4 (fst (ht_inactivity now s)).
Proof. intros H. unfold ht_inactivity, c_limit_reached. pass4. Qed.

Lemma J4_ht_phase now s : J4 s -> J4 (ht_phase now s).
Proof. intros H. unfold ht_phase, c_limit_reached, c_timeout_occurred, set_fin_flag. pass4. Qed.

Lemma J4_handle_timeout now s : J4 s -> J4 (handle_timeout now s).
Proof.
  intros H. unfold handle_timeout.
  pose proof (J4_ht_inactivity now _ (J4_ht_delayed now s H)) as H1.
  destruct (ht_inactivity now (ht_delayed now s)) as [s1 go]. cbn [fst] in H1.
  destruct go; [apply J4_ht_phase|]; exact H1.
Qed.

Lemma J4_process_pdu now p s : J4 s -> J4 (fst (process_pdu now p s)).
Proof.
  intros H. unfold Recv.process_pdu.
  set (s0 := if suspended s then s else upd_inact (c_reset now) s).
  assert (H0 : J4 s0) by (unfold s0; destruct (suspended s); j4).
  clearbody s0. clear H.
  assert (Hn : not_recv s0) by (destruct H0; assumption).
  destruct (cfg_mode (r_cfg s0)); destruct p; cbn [fst];
    rewrite ?late_filedata_acked, ?late_eof_acked, ?late_metadata_acked, ?late_filedata_unacked,
            ?late_eof_unacked by exact Hn; try exact H0;
    unfold pdu_ack_acked, pdu_ack_unacked, pdu_metadata_unacked;
    repeat (destr_inner; cbn [fst]); try exact H0;
    unfold prepare_ack_eof, shutdown, set_metadata; j4.
Qed.

(* the invariant is preserved by every operation, and (since the step starts with an empty
   output log) everything the step emits is clean *)
Theorem J4_rstep now o s : J4 s -> J4 (fst (rstep now o s)).
Proof.
  intros H. unfold Recv.rstep.
  assert (H0 : J4 (set_r_out [] s)) by j4.
  destruct o; cbn [fst].
  - apply J4_process_pdu; exact H0.
  - destruct (has_pdu_to_send _); [apply J4_send_pdu|]; exact H0.
  - destruct (until_timeout now _) as [[|?]|]; [apply J4_handle_timeout| |]; exact H0.
  - apply J4_cancel; exact H0.
  - apply J4_suspend; exact H0.
  - apply J4_resume; exact H0.
  - apply J4_send_report; exact H0.
  - apply J4_shutdown; exact H0.
Qed.

End RecvP4.
