(* C04: after a successful delivery no later output reports a file-integrity failure. *)
From CFDP Require Import Base.Prelude Model.Segments Model.Timer Model.TxTypes Model.Recv
  Proofs.SegmentsP Proofs.Tac Proofs.RecvP.

Section RecvP4.
Variable FS : Type.
Variable fs_write_file : FS -> bytes -> bytes -> option FS.
Variable fs_exec : FS -> fsreq -> FS * fsresp.
Variable resp_fail : fsresp -> bool.
Variable not_performed : fsreq -> fsresp.
Variable cksum : cktype -> bytes -> N.
Variable resp_len : fsresp -> N.
Variable req_len : fsreq -> N.

Notation rstate := (rstate FS).
Notation rstep := (rstep FS fs_write_file fs_exec resp_fail not_performed cksum resp_len req_len).
Notation process_pdu := (process_pdu FS fs_write_file fs_exec resp_fail not_performed cksum).
Notation check_finished := (check_finished FS fs_write_file fs_exec resp_fail not_performed cksum).
Notation send_pdu := (send_pdu resp_len req_len).
Notation not_recv := (@not_recv FS).

(* ---- C04: after a successful delivery no later output reports a file-integrity failure ---- *)
Definition bad (c : cond) : Prop := c = FileChecksumFailure \/ c = FilesizeError.
Definition clean (o : out) : Prop :=
  match o with
  | OInd (IFault c _) => ~ bad c
  | OInd (IFinished r _ _ _) => ~ bad (trp_cond r)
  | OPdu p => match o_payload p with PFinished f => ~ bad (fin_cond f) | _ => True end
  | _ => True
  end.
Definition fin_clean (s : rstate) : Prop :=
  match r_fin s with Some (f, _) => ~ bad (fin_cond f) | None => True end.
Definition J4 (s : rstate) : Prop :=
  not_recv s /\ ~ bad (r_cond s) /\ fin_clean s /\ Forall clean (r_out s).

(* J4 only looks at four fields *)
Lemma J4_ext (s s' : rstate) : J4 s -> r_phase s' = r_phase s -> r_cond s' = r_cond s ->
  r_fin s' = r_fin s -> r_out s' = r_out s -> J4 s'.
Proof.
  unfold J4, fin_clean, RecvP.not_recv. intros (A & B & C & D) E1 E2 E3 E4.
  rewrite E1, E2, E3, E4. auto.
Qed.
(* ... and new outputs must be clean *)
Lemma J4_out (s s' : rstate) o : J4 s -> r_phase s' = r_phase s -> r_cond s' = r_cond s ->
  r_fin s' = r_fin s -> r_out s' = o :: r_out s -> clean o -> J4 s'.
Proof.
  unfold J4, fin_clean, RecvP.not_recv. intros (A & B & C & D) E1 E2 E3 E4 Ho.
  rewrite E1, E2, E3, E4. splits; auto.
Qed.
Lemma J4_flag (s s' : rstate) f b b' : J4 s -> r_phase s' = r_phase s -> r_cond s' = r_cond s ->
  r_fin s = Some (f, b) -> r_fin s' = Some (f, b') -> r_out s' = r_out s -> J4 s'.
Proof.
  unfold J4, fin_clean, RecvP.not_recv. intros (A & B & C & D) E1 E2 E3 E4 E5.
  rewrite E1, E2, E4, E5. rewrite E3 in C. auto.
Qed.

Ltac leaf4 :=
  first [ eassumption
        | match goal with Hb : J4 _ |- _ =>
            eapply J4_ext; [exact Hb | reflexivity | reflexivity | reflexivity | reflexivity] end
        | match goal with Hb : J4 _ |- _ =>
            eapply J4_out; [exact Hb | reflexivity | reflexivity | reflexivity | reflexivity
                           | cbn; unfold bad; intuition congruence] end ].

Lemma not_bad_neq c : c <> FileChecksumFailure -> c <> FilesizeError -> ~ bad c.
Proof. unfold bad. intuition. Qed.

Lemma J4_shutdown now s : J4 s -> J4 (shutdown now s).
Proof. intros H. unfold shutdown. leaf4. Qed.
Lemma J4_abandon now s : J4 s -> J4 (abandon now s).
Proof.
  intros H. apply J4_shutdown. unfold abandon.
  eapply J4_out; [exact H | reflexivity | reflexivity | reflexivity | reflexivity | exact I].
Qed.
Lemma J4_suspend now s : J4 s -> J4 (suspend now s).
Proof.
  intros H. unfold suspend.
  eapply J4_out; [exact H | reflexivity | reflexivity | reflexivity | reflexivity | exact I].
Qed.

Lemma J4_prepare_finished fl s : J4 s -> J4 (prepare_finished fl s).
Proof.
  unfold J4, fin_clean, RecvP.not_recv, prepare_finished. cbn. intros (A & B & C & D). auto.
Qed.

Lemma J4_finished_ind s : J4 s ->
  J4 (emit_ind (IFinished (generate_report s) (r_fstat s) (r_dc s) []) s).
Proof.
  intros H. eapply J4_out; [exact H | reflexivity | reflexivity | reflexivity | reflexivity |].
  cbn. destruct H as (_ & B & _). exact B.
Qed.

Lemma J4_phase_cancelled s : J4 s -> J4 (set_r_phase RCancelled s).
Proof.
  unfold J4, fin_clean, RecvP.not_recv. cbn. intros (A & B & C & D). splits; auto. discriminate.
Qed.

Lemma J4_cancel_ now s : J4 s -> J4 (cancel_ now s).
Proof.
  intros H. unfold cancel_.
  assert (H1 : J4 (upd_nak (c_pause now) (set_r_phase RCancelled s))).
  { eapply J4_ext; [apply J4_phase_cancelled; exact H | reflexivity..]. }
  destruct (cfg_mode _).
  - apply J4_finished_ind. apply J4_prepare_finished. exact H1.
  - apply J4_finished_ind. apply J4_shutdown. destruct (closure _); [apply J4_prepare_finished|]; exact H1.
Qed.

Definition timer_cond (c : cond) : Prop :=
  c = InactivityDetected \/ c = PositiveLimitReached \/ c = NakLimitReached \/ c = CancelReceived.

Lemma J4_set_cond c s : timer_cond c -> J4 s -> J4 (set_r_cond c s).
Proof.
  unfold J4, fin_clean, RecvP.not_recv, timer_cond, bad. cbn. intros Hc (A & B & C & D).
  splits; auto. intuition congruence.
Qed.

Lemma J4_handle_fault now c s : timer_cond c -> J4 s -> J4 (fst (handle_fault now c s)).
Proof.
  intros Hc H. unfold handle_fault.
  assert (H1 : J4 (emit_ind (IFault c (r_recvd (set_r_cond c s))) (set_r_cond c s))).
  { eapply J4_out; [apply J4_set_cond; [exact Hc | exact H] | reflexivity | reflexivity | reflexivity | reflexivity |].
    cbn. unfold timer_cond, bad in *. intuition congruence. }
  destruct (handler _ c); cbn [fst].
  - apply J4_cancel_; exact H1.
  - apply J4_suspend; exact H1.
  - exact H1.
  - apply J4_abandon; exact H1.
Qed.

Ltac tc := unfold timer_cond; auto.
Ltac pass4 := repeat (first [ callhf J4 J4_handle_fault tc leaf4 | call2 J4 (@abandon FS) J4_abandon leaf4
                            | call2 J4 (@cancel_ FS) J4_cancel_ leaf4 | destr_inner ]; cbn [fst snd]);
              try leaf4.

Lemma J4_send_naks now s : J4 s -> J4 (send_naks resp_len req_len now s).
Proof. intros H. unfold send_naks, c_limit_reached, emit_pdu. pass4. Qed.

Lemma J4_send_ack_eof s : J4 s -> J4 (send_ack_eof resp_len req_len s).
Proof. intros H. unfold send_ack_eof, emit_pdu. pass4. Qed.

Lemma J4_send_finished now s : J4 s -> J4 (send_finished resp_len req_len now s).
Proof.
  intros H. unfold send_finished, set_fin_flag, emit_pdu.
  destruct (r_fin (upd_ack (c_restart now) s)) as [[f [|]]|] eqn:E; try leaf4.
  cbn in E.
  assert (H1 : J4 (set_r_out (OPdu (mkOpdu false (payload_len (r_cfg s) resp_len req_len (PFinished f))
                                            (cfg_src (r_cfg s)) (PFinished f)) :: r_out s)
                             (upd_ack (c_restart now) s))).
  { eapply J4_out; [exact H | reflexivity | reflexivity | reflexivity | reflexivity |].
    cbn. destruct H as (_ & _ & C & _). unfold fin_clean in C. rewrite E in C. exact C. }
  cbn. rewrite E.
  eapply J4_flag; [exact H1 | reflexivity | reflexivity | cbn; exact E | reflexivity | reflexivity].
Qed.

Lemma J4_answer_prompt now s : J4 s -> J4 (answer_prompt resp_len req_len now s).
Proof.
  intros H. unfold answer_prompt, emit_pdu. destruct (r_prompt s) as [[|]|]; try leaf4.
  apply J4_send_naks. leaf4.
Qed.

Lemma J4_send_pdu now s : J4 s -> J4 (send_pdu now s).
Proof.
  intros H. unfold Recv.send_pdu.
  pose proof (J4_answer_prompt now s H). pose proof (J4_send_ack_eof s H).
  pose proof (J4_send_naks now s H). pose proof (J4_send_finished now s H).
  repeat destr_inner; auto.
Qed.

Lemma J4_resume now s : J4 s -> J4 (resume now s).
Proof. intros H. unfold resume. pass4. Qed.

Lemma J4_cancel now s : J4 s -> J4 (cancel now s).
Proof. intros H. unfold cancel. apply J4_cancel_. apply J4_set_cond; [tc | exact H]. Qed.

Lemma J4_send_report s : J4 s -> J4 (send_report s).
Proof. intros H. unfold send_report. leaf4. Qed.

Lemma J4_ht_delayed now s : J4 s -> J4 (ht_delayed now s).
Proof.
  intros H. unfold ht_delayed. destruct (expire_delayed now (r_delayed s)) as [expired rest]. pass4.
Qed.

Lemma J4_ht_inactivity now s : J4 s -> J4 (fst (ht_inactivity now s)).
Proof. intros H. unfold ht_inactivity, c_limit_reached. pass4. Qed.

Lemma J4_set_fin_flag b s : J4 s -> J4 (set_fin_flag b s).
Proof.
  intros H. unfold set_fin_flag. destruct (r_fin s) as [[f b0]|] eqn:E; [|exact H].
  eapply J4_flag; [exact H | reflexivity | reflexivity | exact E | reflexivity | reflexivity].
Qed.

Lemma J4_ht_nak now s : J4 s -> J4 (ht_nak now s).
Proof.
  intros H. unfold ht_nak, c_timeout_occurred.
  repeat (first [ destr_inner ]; cbn [fst snd]); try leaf4.
Qed.
Lemma J4_ht_ackphase now s : J4 s -> J4 (ht_ackphase now s).
Proof.
  intros H. unfold ht_ackphase, c_limit_reached, c_timeout_occurred.
  repeat (first [ callhf J4 J4_handle_fault tc leaf4 | call2 J4 (@abandon FS) J4_abandon leaf4
                | call2 J4 (@set_fin_flag FS) J4_set_fin_flag leaf4 | destr_inner ]; cbn [fst snd]);
    try leaf4.
Qed.
Lemma J4_ht_phase now s : J4 s -> J4 (ht_phase now s).
Proof. intros H. unfold ht_phase. apply J4_ht_ackphase. apply J4_ht_nak. exact H. Qed.

Lemma J4_handle_timeout now s : J4 s -> J4 (handle_timeout now s).
Proof.
  intros H. unfold handle_timeout.
  pose proof (J4_ht_inactivity now _ (J4_ht_delayed now s H)) as H1.
  destruct (ht_inactivity now (ht_delayed now s)) as [s1 go]. cbn [fst] in H1.
  destruct go; [apply J4_ht_phase|]; exact H1.
Qed.

Lemma J4_process_pdu now p s : J4 s -> J4 (fst (process_pdu now p s)).
Proof.
  intros H. unfold Recv.process_pdu.
  set (s0 := if suspended s then s else upd_inact (c_reset now) s).
  assert (H0 : J4 s0) by (unfold s0; destruct (suspended s); leaf4).
  clearbody s0. clear H.
  assert (Hn : not_recv s0) by (destruct H0; assumption).
  destruct (cfg_mode (r_cfg s0)); destruct p; cbn [fst];
    rewrite ?late_filedata_acked, ?late_eof_acked, ?late_metadata_acked, ?late_filedata_unacked,
            ?late_eof_unacked by exact Hn; try exact H0;
    unfold pdu_ack_acked, pdu_ack_unacked, pdu_metadata_unacked, prepare_ack_eof, set_metadata;
    repeat (destr_inner; cbn [fst]); try exact H0; try leaf4.
  all: apply J4_shutdown; leaf4.
Qed.

(* the invariant is preserved by every operation, and (since the step starts with an empty
   output log) everything the step emits is clean *)
Theorem J4_rstep now o s : J4 s -> J4 (fst (rstep now o s)).
Proof.
  intros H. unfold Recv.rstep.
  assert (H0 : J4 (set_r_out [] s)).
  { destruct H as (A & B & C & D). unfold J4, fin_clean, RecvP.not_recv in *. cbn. auto. }
  destruct o; cbn [fst].
  - apply J4_process_pdu; exact H0.
  - destruct (has_pdu_to_send _); [apply J4_send_pdu|]; exact H0.
  - destruct (until_timeout now _) as [[|?]|]; [apply J4_handle_timeout| |]; exact H0.
  - apply J4_cancel; exact H0.
  - apply J4_suspend; exact H0.
  - apply J4_resume; exact H0.
  - apply J4_send_report; exact H0.
  - apply J4_shutdown; exact H0.
Qed.

(* entry: the state right after a successful delivery satisfies the invariant *)
Lemma J4_entry (s : rstate) f b : r_phase s = RFinished -> r_cond s = NoError ->
  r_fin s = Some (f, b) -> fin_cond f = NoError -> J4 (set_r_out [] s).
Proof.
  intros Hp Hc Hf Hfc. unfold J4, fin_clean, RecvP.not_recv, bad. cbn. rewrite Hp, Hc, Hf, Hfc.
  splits; auto; try discriminate; intuition discriminate.
Qed.

End RecvP4.
