(* C11, routing core: properties of the daemon's table and sequence counter (Model/Daemon.v). *)
From CFDP Require Import Base.Prelude Model.Daemon Proofs.TimerP.

Lemma key_eqb_eq a b : key_eqb a b = true <-> a = b.
Proof.
  unfold key_eqb. destruct a as [a1 a2], b as [b1 b2]. cbn. rewrite andb_true_iff, !N.eqb_eq.
  split; [intros (A & B); subst; reflexivity|intros H; inversion H; auto].
Qed.
Lemma key_eqb_refl a : key_eqb a a = true.
Proof. apply key_eqb_eq. reflexivity. Qed.
Lemma kmem_in k l : kmem k l = true <-> In k l.
Proof.
  unfold kmem. rewrite existsb_exists. split.
  - intros (x & Hin & He). apply key_eqb_eq in He. subst. exact Hin.
  - intros H. exists k. split; [exact H|apply key_eqb_refl].
Qed.
Lemma kinsert_in k x l : In x (kinsert k l) <-> x = k \/ In x l.
Proof.
  unfold kinsert. destruct (kmem k l) eqn:E.
  - apply kmem_in in E. split; [auto|]. intros [H|H]; [subst; exact E|exact H].
  - rewrite in_app_iff. cbn. split; [intros [H|[H|[]]]; auto|intros [H|H]; auto].
Qed.
Lemma kremove_in k x l : In x (kremove k l) <-> In x l /\ x <> k.
Proof.
  unfold kremove. rewrite filter_In. split; intros (A & B); split; auto.
  - intros E. subst. rewrite key_eqb_refl in B. discriminate.
  - destruct (key_eqb k x) eqn:E; [|reflexivity]. apply key_eqb_eq in E. subst. contradiction.
Qed.

(* ---- the sequence counter ---- *)
(* distinct offsets below the modulus give distinct sequence numbers *)
Lemma seq_injective M a i j : 0 < M -> i < j -> j < M -> (a + i) mod M <> (a + j) mod M.
Proof.
  intros HM Hij HjM E.
  pose proof (N.div_mod (a + i) M ltac:(lia)) as D1. pose proof (N.div_mod (a + j) M ltac:(lia)) as D2.
  pose proof (N.mod_lt (a + i) M ltac:(lia)) as L1. rewrite E in D1.
  set (q1 := (a + i) / M) in *. set (q2 := (a + j) / M) in *. set (r := (a + j) mod M) in *.
  assert (Hq : q1 < q2 \/ q2 <= q1) by lia. destruct Hq as [Hq|Hq]; nia.
Qed.

(* a Put hands out the current counter value under this entity's id and advances the counter;
   nothing else touches entity, width or counter *)
Lemma put_counter dest ok s :
  let '(s', _, id) := d_put dest ok s in
  d_next s' = (d_next s + 1) mod seq_modulus (d_width s) /\ d_entity s' = d_entity s /\ d_width s' = d_width s /\
  d_transports s' = d_transports s /\
  (id = None \/ id = Some (d_entity s, d_next s)).
Proof. unfold d_put. destruct (has_transport dest s); [destruct ok|]; cbn; auto 10. Qed.
Lemma forward_counter ts src dst seq closed s :
  let '(s', _, _) := d_forward ts src dst seq closed s in
  d_next s' = d_next s /\ d_entity s' = d_entity s /\ d_width s' = d_width s /\ d_transports s' = d_transports s.
Proof.
  unfold d_forward. repeat match goal with |- context [if ?b then _ else _] => destruct b end; cbn; auto.
Qed.

(* n Puts in a row, each able to start: their ids *)
Fixpoint puts (n : nat) (dest : N) (s : dstate) : list dkey :=
  match n with
  | O => []
  | S k => let '(s1, _, id) := d_put dest true s in
           match id with Some i => i :: puts k dest s1 | None => puts k dest s1 end
  end.

Lemma puts_spec n : forall dest s k0 a, has_transport dest s = true -> 0 < seq_modulus (d_width s) ->
  d_next s = (a + k0) mod seq_modulus (d_width s) ->
  puts n dest s = map (fun k => (d_entity s, (a + k0 + N.of_nat k) mod seq_modulus (d_width s))) (seq 0 n).
Proof.
  induction n as [|n IH]; intros dest s k0 a Ht HM Hn; [reflexivity|].
  cbn [puts]. unfold d_put. rewrite Ht.
  match goal with |- context [puts n dest ?x] => set (s1 := x) end.
  cbn [seq map]. f_equal.
  - rewrite N.add_0_r. rewrite Hn. reflexivity.
  - rewrite (IH dest s1 (k0 + 1) a); [| exact Ht | exact HM |].
    + rewrite <- seq_shift, map_map. apply map_ext. intros k. unfold s1. cbn [d_entity d_width].
      f_equal. f_equal. lia.
    + unfold s1. cbn [d_next d_width]. rewrite Hn. rewrite N.add_mod_idemp_l by lia. f_equal. lia.
Qed.

Lemma NoDup_map_in {A B} (g : A -> B) (l : list A) :
  (forall x y, In x l -> In y l -> g x = g y -> x = y) -> NoDup l -> NoDup (map g l).
Proof.
  intros Hinj Hnd. induction Hnd as [|a l Hnin Hnd IH]; cbn; constructor.
  - intros Hin. apply in_map_iff in Hin as (y & Ey & Hy). apply Hnin.
    rewrite (Hinj a y); [exact Hy|left; reflexivity|right; exact Hy|symmetry; exact Ey].
  - apply IH. intros x y Hx Hy. apply Hinj; right; assumption.
Qed.

(* C11: the transaction ids handed out by up to 2^(8w) consecutive Put requests are pairwise distinct *)
Theorem put_ids_distinct n dest s : has_transport dest s = true -> d_next s < seq_modulus (d_width s) ->
  N.of_nat n <= seq_modulus (d_width s) -> NoDup (puts n dest s).
Proof.
  intros Ht Hlt Hn. set (M := seq_modulus (d_width s)) in *.
  rewrite (puts_spec n dest s 0 (d_next s) Ht ltac:(lia)); [|rewrite N.add_0_r, N.mod_small by exact Hlt; reflexivity].
  fold M. apply NoDup_map_in; [|apply seq_NoDup].
  intros x y Hx Hy E. apply in_seq in Hx, Hy. inversion E as [E1].
  destruct (Nat.lt_trichotomy x y) as [H|[H|H]]; [exfalso|exact H|exfalso].
  - apply (seq_injective M (d_next s + 0) (N.of_nat x) (N.of_nat y)); [lia|lia|lia|exact E1].
  - apply (seq_injective M (d_next s + 0) (N.of_nat y) (N.of_nat x)); [lia|lia|lia|symmetry; exact E1].
Qed.

(* ---- forward_pdu ---- *)
(* Frame: a PDU can only reach, create or replace the transaction registered under ITS key
   (source entity, sequence number); every other registration is untouched, nothing is ever
   removed, and the sequence counter is not involved *)
Theorem forward_frame ts src dst seq closed s :
  let '(s', res, target) := d_forward ts src dst seq closed s in
  (forall k, k <> (src, seq) -> (In k (d_tbl s') <-> In k (d_tbl s))) /\
  (In (src, seq) (d_tbl s) -> In (src, seq) (d_tbl s')) /\
  (forall k, target = Some k -> k = (src, seq) /\ In k (d_tbl s')) /\
  d_next s' = d_next s.
Proof.
  unfold d_forward.
  destruct (kmem (src, seq) (d_tbl s)) eqn:Em.
  - apply kmem_in in Em.
    destruct (negb closed); [|destruct ts; [|destruct (has_transport _ s)]]; cbn;
      (splits; [tauto | tauto | intros k Hk; try discriminate; inversion Hk; subst; auto | reflexivity]).
  - destruct (has_transport _ s); [destruct ts|]; cbn;
      try (splits; [tauto | tauto | intros k Hk; discriminate | reflexivity]).
    splits; [| | | reflexivity].
    + intros k Hk. rewrite kinsert_in. split; [intros [H|H]; [contradiction|exact H]|auto].
    + intros H. apply kinsert_in. auto.
    + intros k Hk. inversion Hk; subst. split; [reflexivity|apply kinsert_in; auto].
Qed.

(* stray traffic: a PDU addressed to a sender that does not exist, and a PDU whose peer entity has
   no transport, change nothing; the result is a warning, never an error that stops the daemon *)
Theorem stray_to_sender_discarded src dst seq closed s : kmem (src, seq) (d_tbl s) = false ->
  d_forward true src dst seq closed s = (s, (if has_transport dst s then DUnable else DOk), None).
Proof. intros H. unfold d_forward. rewrite H. destruct (has_transport dst s); reflexivity. Qed.
Theorem no_transport_discarded (ts : bool) src dst seq closed s : kmem (src, seq) (d_tbl s) = false ->
  has_transport (if ts then dst else src) s = false ->
  d_forward ts src dst seq closed s = (s, DOk, None).
Proof. intros H Ht. unfold d_forward. rewrite H, Ht. reflexivity. Qed.
(* a ToReceiver PDU with an unknown id starts a receive transaction under exactly that id
   (which then ends by its own limits - C03) *)
Theorem unknown_to_receiver_spawns src dst seq closed s : kmem (src, seq) (d_tbl s) = false ->
  has_transport src s = true ->
  let '(s', res, target) := d_forward false src dst seq closed s in
  res = DOk /\ target = Some (src, seq) /\ (forall k, In k (d_tbl s') <-> k = (src, seq) \/ In k (d_tbl s)).
Proof.
  intros H Ht. unfold d_forward. rewrite H, Ht. cbn. splits; auto. intros k. apply kinsert_in.
Qed.

(* user commands reach only the transaction they name; cleanup only removes *)
Theorem command_frame id closed s :
  let '(s', res, target) := d_command id closed s in s' = s /\ (forall k, target = Some k -> k = id /\ In k (d_tbl s)).
Proof.
  unfold d_command. destruct (kmem id (d_tbl s)) eqn:E; [destruct closed|]; cbn; split; auto; intros k Hk; try discriminate.
  inversion Hk; subst. split; [reflexivity|apply kmem_in; exact E].
Qed.
Lemma fold_kremove_in ended : forall t x, In x (fold_left (fun t k => kremove k t) ended t) <-> In x t /\ ~ In x ended.
Proof.
  induction ended as [|k e IH]; intros t x; cbn [fold_left].
  - cbn. tauto.
  - rewrite IH, kremove_in. cbn. intuition congruence.
Qed.
Theorem cleanup_only_removes ended s :
  (forall k, In k (d_tbl (d_cleanup ended s)) <-> In k (d_tbl s) /\ ~ In k ended) /\
  d_next (d_cleanup ended s) = d_next s.
Proof. unfold d_cleanup. cbn. split; [apply fold_kremove_in|reflexivity]. Qed.
