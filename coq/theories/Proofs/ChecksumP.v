(* Proofs about Model/Checksum.v: the chunk-by-chunk computation of the (fixed)
   code equals the CCSDS definition for every chunking; sensitivity to a change
   of one byte. *)
From CFDP Require Import Base.Prelude Model.Checksum.

(* ---- induction over a list four elements at a time ---- *)
Lemma list_ind4 (A : Type) (P : list A -> Prop) :
  P [] -> (forall a, P [a]) -> (forall a b, P [a; b]) -> (forall a b c, P [a; b; c]) ->
  (forall a b c d t, P t -> P (a :: b :: c :: d :: t)) -> forall l, P l.
Proof.
  intros H0 H1 H2 H3 H4 l.
  assert (H : forall n l', (length l' <= n)%nat -> P l').
  { induction n as [|n IH]; intros l' Hl.
    - destruct l' as [|a t]; [exact H0 | cbn [length] in Hl; lia].
    - destruct l' as [|a [|b [|c [|d t]]]]; auto.
      apply H4. apply IH. cbn [length] in Hl. lia. }
  apply (H (length l)). lia.
Qed.

(* ---- the words of a zero-padded byte string, without arithmetic on lengths ---- *)
Fixpoint words (data : list N) : list N :=
  match data with
  | b0 :: b1 :: b2 :: b3 :: t => be32 b0 b1 b2 b3 :: words t
  | [] => []
  | [b0] => [be32 b0 0 0 0]
  | [b0; b1] => [be32 b0 b1 0 0]
  | [b0; b1; b2] => [be32 b0 b1 b2 0]
  end.

Lemma mod4_SSSS n : (S (S (S (S n))) mod 4 = n mod 4)%nat.
Proof.
  replace (S (S (S (S n)))) with (n + 1 * 4)%nat by lia.
  apply Nat.mod_add. lia.
Qed.

Lemma pad4_cons4 a b c d t : pad4 (a :: b :: c :: d :: t) = a :: b :: c :: d :: pad4 t.
Proof.
  unfold pad4. cbn [length app]. rewrite mod4_SSSS. reflexivity.
Qed.

Lemma words_pad4 data : be_words (pad4 data) = words data.
Proof.
  induction data as [|a|a b|a b c|a b c d t IH] using list_ind4; try reflexivity.
  rewrite pad4_cons4. cbn [be_words words]. rewrite IH. reflexivity.
Qed.

Lemma spec_words data : spec data = sum32 (words data).
Proof. unfold spec. rewrite words_pad4. reflexivity. Qed.

(* ---- add_words ---- *)
Lemma add_words_app X : forall acc acc' r, add_words acc X = (acc', r) ->
  (length r < 4)%nat /\ forall Y, add_words acc (X ++ Y) = add_words acc' (r ++ Y).
Proof.
  induction X as [|a|a b|a b c|a b c d t IH] using list_ind4; intros acc acc' r H.
  - cbn in H. inversion H; subst. split; [cbn; lia | reflexivity].
  - cbn in H. inversion H; subst. split; [cbn; lia | reflexivity].
  - cbn in H. inversion H; subst. split; [cbn; lia | reflexivity].
  - cbn in H. inversion H; subst. split; [cbn; lia | reflexivity].
  - cbn [add_words] in H. destruct (IH _ _ _ H) as [Hl HY]. split; [exact Hl|].
    intros Y. cbn [app add_words]. apply HY.
Qed.

Lemma step_add_words r : (length r < 4)%nat -> forall acc chunk,
  step (acc, r) chunk = add_words acc (r ++ chunk).
Proof.
  intros Hr acc chunk.
  destruct r as [|a [|b [|c [|d t]]]].
  - reflexivity.
  - destruct chunk as [|x [|y [|z u]]]; try reflexivity.
    cbn. destruct (add_words _ u); reflexivity.
  - destruct chunk as [|x [|y u]]; try reflexivity.
    cbn. destruct (add_words _ u); reflexivity.
  - destruct chunk as [|x u]; try reflexivity.
    cbn. destruct (add_words _ u); reflexivity.
  - cbn [length] in Hr. lia.
Qed.

Definition nonempty (c : list N) : Prop := c <> [].

Lemma loop_add_words chunks : Forall nonempty chunks -> forall X acc0,
  loop (add_words acc0 X) chunks = add_words acc0 (X ++ concat chunks).
Proof.
  induction chunks as [|c rest IH]; intros Hne X acc0.
  - cbn [loop concat]. rewrite app_nil_r. reflexivity.
  - inversion Hne as [|c' rest' Hc Hrest]; subst.
    destruct c as [|x c0]; [exfalso; apply Hc; reflexivity|].
    cbn [loop concat].
    destruct (add_words acc0 X) as [acc' r] eqn:E.
    destruct (add_words_app X acc0 acc' r E) as [Hl HY].
    rewrite (step_add_words r Hl). rewrite <- HY. rewrite IH by assumption.
    rewrite app_assoc. reflexivity.
Qed.

Lemma finish_add_words data : forall acc,
  finish (add_words acc data) = fold_left wadd (words data) acc.
Proof.
  induction data as [|a|a b|a b c|a b c d t IH] using list_ind4; intros acc; try reflexivity.
  cbn [add_words words fold_left]. apply IH.
Qed.

Lemma impl_chunks_spec chunks : Forall nonempty chunks ->
  impl_chunks chunks = spec (concat chunks).
Proof.
  intros Hne. unfold impl_chunks.
  change (0, @nil N) with (add_words 0 []).
  rewrite loop_add_words by assumption. cbn [app].
  rewrite finish_add_words. rewrite spec_words. reflexivity.
Qed.

(* what the loop does when the reader reports end of file early (an empty
   buffer): everything after it is ignored *)
Fixpoint until_empty (chunks : list (list N)) : list (list N) :=
  match chunks with
  | [] => []
  | [] :: _ => []
  | c :: rest => c :: until_empty rest
  end.

Lemma until_empty_nonempty chunks : Forall nonempty (until_empty chunks).
Proof.
  induction chunks as [|c rest IH]; [constructor|].
  destruct c as [|x c0]; [constructor|].
  cbn [until_empty]. constructor; [discriminate | exact IH].
Qed.

Lemma loop_until_empty chunks : forall st, loop st chunks = loop st (until_empty chunks).
Proof.
  induction chunks as [|c rest IH]; intros st; [reflexivity|].
  destruct c as [|x c0]; [reflexivity|].
  cbn [until_empty loop]. apply IH.
Qed.

Lemma impl_chunks_any chunks : impl_chunks chunks = spec (concat (until_empty chunks)).
Proof.
  unfold impl_chunks. rewrite loop_until_empty.
  apply (impl_chunks_spec (until_empty chunks)). apply until_empty_nonempty.
Qed.

Lemma checksum_null_zero chunks : file_checksum checksum_null chunks = 0.
Proof. reflexivity. Qed.

Lemma checksum_modular chunks : Forall nonempty chunks -> file_checksum 0 chunks = spec (concat chunks).
Proof. intros H. unfold file_checksum. cbn. apply impl_chunks_spec; assumption. Qed.

(* ---- the wrapping sum is the sum of the words modulo 2^32 ---- *)
Fixpoint lsum (ws : list N) : N := match ws with [] => 0 | w :: t => w + lsum t end.

Lemma two32_nz : two32 <> 0.
Proof. unfold two32. lia. Qed.

Lemma fold_wadd_lsum ws : forall acc, acc < two32 ->
  fold_left wadd ws acc = (acc + lsum ws) mod two32.
Proof.
  induction ws as [|w t IH]; intros acc Hacc.
  - cbn [fold_left lsum]. rewrite N.add_0_r. symmetry. apply N.mod_small. exact Hacc.
  - cbn [fold_left lsum]. rewrite IH.
    + unfold wadd. rewrite N.add_mod_idemp_l by apply two32_nz.
      rewrite N.add_assoc. reflexivity.
    + unfold wadd. apply N.mod_lt. apply two32_nz.
Qed.

Lemma sum32_lsum ws : sum32 ws = lsum ws mod two32.
Proof.
  unfold sum32. rewrite fold_wadd_lsum.
  - rewrite N.add_0_l. reflexivity.
  - unfold two32. lia.
Qed.

Lemma spec_lt data : spec data < two32.
Proof. rewrite spec_words, sum32_lsum. apply N.mod_lt. apply two32_nz. Qed.

(* ---- one byte enters the sum linearly with weight 256^k, k <= 3 ---- *)
Lemma lsum_byte post pre : exists w,
  (w = 1 \/ w = 256 \/ w = 65536 \/ w = 16777216) /\
  forall b, lsum (words (pre ++ b :: post)) = lsum (words (pre ++ 0 :: post)) + b * w.
Proof.
  induction pre as [|a|a a'|a a' a''|a a' a'' a''' t IH] using list_ind4.
  - exists 16777216. split; [tauto|]. intros b.
    destruct post as [|p1 [|p2 [|p3 u]]]; cbn [app words lsum]; unfold be32; lia.
  - exists 65536. split; [tauto|]. intros b.
    destruct post as [|p1 [|p2 [|p3 u]]]; cbn [app words lsum]; unfold be32; lia.
  - exists 256. split; [tauto|]. intros b.
    destruct post as [|p1 [|p2 [|p3 u]]]; cbn [app words lsum]; unfold be32; lia.
  - exists 1. split; [tauto|]. intros b.
    destruct post as [|p1 [|p2 [|p3 u]]]; cbn [app words lsum]; unfold be32; lia.
  - destruct IH as (w & Hw & IH). exists w. split; [exact Hw|]. intros b.
    cbn [app words lsum]. rewrite IH. lia.
Qed.

Lemma mod_shift_neq a d : 0 < d -> d < two32 -> (a + d) mod two32 <> a mod two32.
Proof.
  intros Hd0 Hd Heq.
  pose proof (N.mod_lt a two32 two32_nz) as Hr.
  rewrite <- N.add_mod_idemp_l in Heq by apply two32_nz.
  set (r := a mod two32) in *.
  destruct (N.lt_ge_cases (r + d) two32) as [Hs|Hs].
  - rewrite N.mod_small in Heq by exact Hs. lia.
  - assert (Hm : r + d - two32 = (r + d) mod two32).
    { apply (N.mod_unique (r + d) two32 1); lia. }
    rewrite <- Hm in Heq. lia.
Qed.

Lemma spec_single_byte pre post b b' : b < 256 -> b' < 256 -> b <> b' ->
  spec (pre ++ b :: post) <> spec (pre ++ b' :: post).
Proof.
  intros Hb Hb' Hne.
  rewrite !spec_words, !sum32_lsum.
  destruct (lsum_byte post pre) as (w & Hw & Hlin).
  rewrite (Hlin b), (Hlin b').
  set (s := lsum (words (pre ++ 0 :: post))).
  destruct (N.lt_ge_cases b b') as [Hlt|Hge].
  - intros Heq. apply (mod_shift_neq (s + b * w) ((b' - b) * w)).
    + destruct Hw as [Hw|[Hw|[Hw|Hw]]]; subst w; lia.
    + unfold two32. destruct Hw as [Hw|[Hw|[Hw|Hw]]]; subst w; lia.
    + rewrite Heq. f_equal. destruct Hw as [Hw|[Hw|[Hw|Hw]]]; subst w; lia.
  - intros Heq. apply (mod_shift_neq (s + b' * w) ((b - b') * w)).
    + destruct Hw as [Hw|[Hw|[Hw|Hw]]]; subst w; lia.
    + unfold two32. destruct Hw as [Hw|[Hw|[Hw|Hw]]]; subst w; lia.
    + rewrite <- Heq. f_equal. destruct Hw as [Hw|[Hw|[Hw|Hw]]]; subst w; lia.
Qed.

(* sender and receiver: identical data, arbitrary (different) chunkings *)
Lemma impl_chunks_same_data c1 c2 : Forall nonempty c1 -> Forall nonempty c2 ->
  concat c1 = concat c2 -> impl_chunks c1 = impl_chunks c2.
Proof.
  intros H1 H2 He. rewrite (impl_chunks_spec c1 H1), (impl_chunks_spec c2 H2), He. reflexivity.
Qed.

Lemma impl_chunks_one_byte c1 c2 pre post b b' : Forall nonempty c1 -> Forall nonempty c2 ->
  concat c1 = pre ++ b :: post -> concat c2 = pre ++ b' :: post ->
  b < 256 -> b' < 256 -> b <> b' -> impl_chunks c1 <> impl_chunks c2.
Proof.
  intros H1 H2 E1 E2 Hb Hb' Hne.
  rewrite (impl_chunks_spec c1 H1), (impl_chunks_spec c2 H2), E1, E2.
  apply spec_single_byte; assumption.
Qed.

(* ---- the pinned code's defect, as an executable witness ---- *)
Example pinned_short_read_refuted :
  Pinned.impl_chunks [[1; 2; 3]; [4; 5; 6; 7; 8]] = 218564871 (* 0x0d070907 *) /\
  spec [1; 2; 3; 4; 5; 6; 7; 8] = 101190156 (* 0x06080a0c *) /\
  impl_chunks [[1; 2; 3]; [4; 5; 6; 7; 8]] = 101190156.
Proof. vm_compute. auto. Qed.
