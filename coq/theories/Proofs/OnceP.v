(* C04 / C13 "once": a step that changes the filestore (stores the delivered file, executes
   filestore requests) ends the receive-data phase or the transaction - so, along any history
   executed the way the transaction's loop does (it stops at Terminated), the filestore changes in
   at most one step, and C04's frozen-filestore theorem applies from then on. *)
From CFDP Require Import Base.Prelude Model.Segments Model.Timer Model.TxTypes Model.Recv
  Proofs.SegmentsP Proofs.Tac Proofs.RecvP Proofs.RecvP4 Proofs.RecvRun.

Section OnceP.
Variable FS : Type.
Variable fs_write_file : FS -> bytes -> bytes -> option FS.
Variable fs_exec : FS -> fsreq -> FS * fsresp.
Variable resp_fail : fsresp -> bool.
Variable not_performed : fsreq -> fsresp.
Variable cksum : cktype -> bytes -> N.
Variable resp_len : fsresp -> N.
Variable req_len : fsreq -> N.

Notation rstate := (rstate FS).
Notation rstep := (rstep FS fs_write_file fs_exec resp_fail not_performed cksum resp_len req_len).
Notation process_pdu := (process_pdu FS fs_write_file fs_exec resp_fail not_performed cksum).
Notation check_finished := (check_finished FS fs_write_file fs_exec resp_fail not_performed cksum).

Definition same_or_ended (s s' : rstate) : Prop :=
  r_fs s' = r_fs s \/ r_phase s' <> RecvData \/ r_state s' = TTerminated.

Lemma check_finished_soe now (s0 s : rstate) : r_fs s = r_fs s0 -> same_or_ended s0 (check_finished now s).
Proof.
  intros E. unfold Recv.check_finished, same_or_ended. destr_inner; [|left; exact E].
  right. left. cbn. discriminate.
Qed.

Lemma store_fs off d (s : rstate) : r_fs (store_file_data off d s) = r_fs s.
Proof. unfold store_file_data. destruct (is_nil d); [reflexivity|]. destruct (ins _ _ _). reflexivity. Qed.

Lemma process_pdu_soe now p (s : rstate) : same_or_ended s (fst (process_pdu now p s)).
Proof.
  unfold Recv.process_pdu.
  set (s0 := if suspended s then s else upd_inact (c_reset now) s).
  assert (E0 : r_fs s0 = r_fs s) by (unfold s0; destruct (suspended s); reflexivity).
  unfold same_or_ended. rewrite <- E0. clearbody s0. clear E0.
  destruct (cfg_mode (r_cfg s0)); destruct p; cbn [fst]; try (left; reflexivity).
  - (* file data, acknowledged *)
    unfold pdu_filedata_acked. destr_inner; [left; reflexivity|].
    apply check_finished_soe. unfold c_timeout_occurred.
    repeat (destr_inner; cbn [fst snd]); cbn; apply store_fs.
  - (* EOF, acknowledged *)
    unfold pdu_eof_acked. destr_inner; [left; reflexivity|].
    destr_inner.
    + match goal with |- context [check_finished now ?x] =>
        pose proof (check_finished_soe now s0 x) as H end.
      assert (Hx : r_fs (set_r_fsize (Some (eof_size e))
                   (check_file_size now (eof_size e)
                      (emit_ind IEoFRecv (set_r_cksum (Some (eof_ck e)) (prepare_ack_eof (set_r_cond (eof_cond e) s0)))))) = r_fs s0).
      { cbn. unfold check_file_size. destr_inner; [|reflexivity].
        destruct (keeps_handle_fault FS now FilesizeError
                    (emit_ind IEoFRecv (set_r_cksum (Some (eof_ck e)) (prepare_ack_eof (set_r_cond (eof_cond e) s0))))) as (A & _).
        exact A. }
      specialize (H Hx). unfold same_or_ended in H.
      remember (check_finished now _) as s4 eqn:E4. clear E4 Hx.
      repeat (destr_inner; cbn [fst snd]); cbn; exact H.
    + right. left. unfold cancel_. cbv zeta. destruct (cfg_mode _); [|destruct (closure _)]; cbn; discriminate.
  - (* ACK *)
    unfold pdu_ack_acked. repeat (destr_inner; cbn [fst snd]); cbn; left; reflexivity.
  - (* Metadata *)
    unfold pdu_metadata_acked. destr_inner; [left; reflexivity|].
    apply check_finished_soe. reflexivity.
  - (* file data, unacknowledged *)
    unfold pdu_filedata_unacked. destr_inner; [left; reflexivity|]. left. cbn. apply store_fs.
  - (* EOF, unacknowledged: finalises, then Finished phase or shutdown *)
    unfold pdu_eof_unacked. destr_inner; [left; reflexivity|].
    destr_inner.
    + destr_inner.
      * destr_inner; [right; left; cbn; discriminate|right; right; reflexivity].
      * left. cbn. unfold check_file_size. destr_inner; [|reflexivity].
        destruct (keeps_handle_fault FS now FilesizeError
                    (emit_ind IEoFRecv (set_r_cksum (Some (eof_ck e)) (set_r_cond (eof_cond e) s0)))) as (A & _).
        exact A.
    + right. left. unfold cancel_. cbv zeta. destruct (cfg_mode _); [|destruct (closure _)]; cbn; discriminate.
  - (* ACK, unacknowledged *)
    unfold pdu_ack_unacked. repeat (destr_inner; cbn [fst snd]); cbn; left; reflexivity.
  - (* Metadata, unacknowledged *)
    unfold pdu_metadata_unacked, set_metadata. destr_inner; left; reflexivity.
Qed.

Theorem rstep_changes_filestore_once now o (s : rstate) :
  let s' := fst (rstep now o s) in
  r_fs s' = r_fs s \/ r_phase s' <> RecvData \/ r_state s' = TTerminated.
Proof.
  cbn zeta. unfold Recv.rstep.
  destruct o; cbn [fst].
  - exact (process_pdu_soe now p (set_r_out [] s)).
  - left. destruct (has_pdu_to_send _); [|reflexivity].
    destruct (keeps_send_pdu FS resp_len req_len now (set_r_out [] s)) as (A & _). exact A.
  - left. destruct (until_timeout now _) as [[|?]|]; try reflexivity.
    destruct (keeps_handle_timeout FS now (set_r_out [] s)) as (A & _). exact A.
  - left. destruct (keeps_cancel FS now (set_r_out [] s)) as (A & _). exact A.
  - left. destruct (keeps_suspend FS now (set_r_out [] s)) as (A & _). exact A.
  - left. destruct (keeps_resume FS now (set_r_out [] s)) as (A & _). exact A.
  - left. destruct (keeps_send_report FS (set_r_out [] s)) as (A & _). exact A.
  - left. destruct (keeps_shutdown FS now (set_r_out [] s)) as (A & _). exact A.
Qed.

(* ---- histories (the loop stops at Terminated: RecvRun.rstep1) ---- *)
Notation rrun := (rrun fs_write_file fs_exec resp_fail not_performed cksum resp_len req_len).
Notation rstep1 := (rstep1 fs_write_file fs_exec resp_fail not_performed cksum resp_len req_len).

Lemma dead_run ops : forall s : rstate, live s = false -> r_fs (rrun ops s) = r_fs s.
Proof.
  induction ops as [|e t IH]; intros s H; cbn [RecvRun.rrun fold_left]; [reflexivity|].
  fold (rrun t (rstep1 s e)). unfold RecvRun.rstep1. rewrite H. rewrite IH; [reflexivity|exact H].
Qed.
Lemma ended_run ops (s : rstate) : r_phase s <> RecvData \/ live s = false -> r_fs (rrun ops s) = r_fs s.
Proof.
  intros [H|H]; [|apply dead_run; exact H].
  apply (frozen_run FS fs_write_file fs_exec resp_fail not_performed cksum resp_len req_len ops s H).
Qed.
Lemma step1_soe (s : rstate) e :
  r_fs (rstep1 s e) = r_fs s \/ (r_phase (rstep1 s e) <> RecvData \/ live (rstep1 s e) = false).
Proof.
  unfold RecvRun.rstep1. destruct (live s) eqn:El; [|left; reflexivity].
  destruct (rstep_changes_filestore_once (fst e) (snd e) s) as [H|[H|H]]; [left; exact H|right; left; exact H|].
  right. right. unfold live. rewrite H. reflexivity.
Qed.

(* once the filestore has changed it never changes again: it takes at most two values in any history *)
Theorem filestore_changes_at_most_once ops1 : forall (s : rstate) ops2,
  r_fs (rrun ops1 s) <> r_fs s -> r_fs (rrun (ops1 ++ ops2) s) = r_fs (rrun ops1 s).
Proof.
  induction ops1 as [|e t IH]; intros s ops2 H; [exfalso; apply H; reflexivity|].
  cbn [app RecvRun.rrun fold_left] in *. fold (rrun t (rstep1 s e)) in *. fold (rrun (t ++ ops2) (rstep1 s e)).
  destruct (step1_soe s e) as [Heq|Hend].
  - apply IH. rewrite Heq. exact H.
  - rewrite (ended_run (t ++ ops2) _ Hend), (ended_run t _ Hend). reflexivity.
Qed.

End OnceP.
