(* Proofs about Model/Crc.v and Model/CrcBits.v (property C15): the CRC-16 register is
   linear over xor, hence the receiver's check of a corrupted frame depends on the error
   pattern only; the error classes the code is designed for have a non-zero syndrome. *)
From CFDP Require Import Base.Prelude Model.Crc Model.CrcBits.

(* ------------------------------------------------------------------ *)
(* 0. finite sweeps: [forallb P (Nrange n) = true] by vm_compute, lifted *)

Fixpoint Nrange_from (a : N) (n : nat) : list N :=
  match n with
  | O => []
  | S n' => a :: Nrange_from (a + 1) n'
  end.
Definition Nrange (n : nat) : list N := Nrange_from 0 n.

Lemma Nrange_from_In n : forall a x, a <= x -> x < a + N.of_nat n -> In x (Nrange_from a n).
Proof.
  induction n as [|n IH]; intros a x Hl Hu; [lia|].
  cbn [Nrange_from]. destruct (N.eq_dec a x) as [E|E]; [left; exact E|].
  right. apply IH; lia.
Qed.

Lemma Nrange_In n x : x < N.of_nat n -> In x (Nrange n).
Proof. intros H. apply Nrange_from_In; lia. Qed.

Lemma sweep (P : N -> bool) n : forallb P (Nrange n) = true -> forall x, x < N.of_nat n -> P x = true.
Proof. intros H x Hx. rewrite forallb_forall in H. apply H. apply Nrange_In. exact Hx. Qed.

Definition n256 : nat := N.to_nat 256.
Definition n65536 : nat := N.to_nat 65536.
Lemma n256_ok : N.of_nat n256 = 256. Proof. unfold n256. apply N2Nat.id. Qed.
Lemma n65536_ok : N.of_nat n65536 = 65536. Proof. unfold n65536. apply N2Nat.id. Qed.

Lemma sweep8 (P : N -> bool) : forallb P (Nrange n256) = true -> forall x, x < 256 -> P x = true.
Proof. intros H x Hx. apply (sweep P n256 H). rewrite n256_ok. exact Hx. Qed.

Lemma sweep16 (P : N -> bool) : forallb P (Nrange n65536) = true -> forall x, x < 65536 -> P x = true.
Proof. intros H x Hx. apply (sweep P n65536 H). rewrite n65536_ok. exact Hx. Qed.

(* ------------------------------------------------------------------ *)
(* 1. bitwise facts on N *)

Lemma land_lxor_distr_r a b c : N.land (N.lxor a b) c = N.lxor (N.land a c) (N.land b c).
Proof.
  apply N.bits_inj. intro n.
  rewrite N.land_spec, !N.lxor_spec, !N.land_spec.
  destruct (N.testbit a n), (N.testbit b n), (N.testbit c n); reflexivity.
Qed.

Lemma lxor_lt_pow2 n a b : a < 2 ^ n -> b < 2 ^ n -> N.lxor a b < 2 ^ n.
Proof.
  intros Ha Hb.
  rewrite <- (N.mod_small a (2 ^ n)) by exact Ha.
  rewrite <- (N.mod_small b (2 ^ n)) by exact Hb.
  rewrite <- !N.land_ones, <- land_lxor_distr_r, N.land_ones.
  apply N.mod_lt. apply N.pow_nonzero. discriminate.
Qed.

Lemma lxor_lt16 a b : a < 65536 -> b < 65536 -> N.lxor a b < 65536.
Proof. exact (lxor_lt_pow2 16 a b). Qed.

Lemma lxor_lt8 a b : a < 256 -> b < 256 -> N.lxor a b < 256.
Proof. exact (lxor_lt_pow2 8 a b). Qed.

Lemma land_mask16_lt a : N.land a mask16 < 65536.
Proof.
  change mask16 with (N.ones 16). rewrite N.land_ones.
  apply N.mod_lt. discriminate.
Qed.

(* (x xor y) xor (z xor w) = (x xor z) xor (y xor w) *)
Lemma lxor_swap x y z w : N.lxor (N.lxor x y) (N.lxor z w) = N.lxor (N.lxor x z) (N.lxor y w).
Proof.
  rewrite !N.lxor_assoc. f_equal.
  rewrite <- !N.lxor_assoc. f_equal. apply N.lxor_comm.
Qed.

(* ------------------------------------------------------------------ *)
(* 2. the register: bounds and linearity *)

Lemma crc_shift_lt s : crc_shift s < 65536.
Proof.
  unfold crc_shift. destruct (N.testbit s 15).
  - apply lxor_lt16; [apply land_mask16_lt | reflexivity].
  - apply land_mask16_lt.
Qed.

Lemma crc_shift_lxor a b : crc_shift (N.lxor a b) = N.lxor (crc_shift a) (crc_shift b).
Proof.
  unfold crc_shift. rewrite N.lxor_spec, N.shiftl_lxor, land_lxor_distr_r.
  set (Ta := N.land (N.shiftl a 1) mask16). set (Tb := N.land (N.shiftl b 1) mask16).
  destruct (N.testbit a 15), (N.testbit b 15); cbn [xorb].
  - rewrite lxor_swap, N.lxor_nilpotent, N.lxor_0_r. reflexivity.
  - rewrite !N.lxor_assoc. f_equal. apply N.lxor_comm.
  - rewrite N.lxor_assoc. reflexivity.
  - reflexivity.
Qed.

Lemma crc_shift_0 : crc_shift 0 = 0.
Proof. reflexivity. Qed.

Lemma crc_byte_lt s b : crc_byte s b < 65536.
Proof. unfold crc_byte. apply crc_shift_lt. Qed.

Lemma crc_byte_lxor s t b c :
  crc_byte (N.lxor s t) (N.lxor b c) = N.lxor (crc_byte s b) (crc_byte t c).
Proof.
  unfold crc_byte. cbv zeta.
  rewrite <- !crc_shift_lxor. do 8 f_equal.
  rewrite land_lxor_distr_r, N.shiftl_lxor. apply lxor_swap.
Qed.

Lemma crc_run_lt s l : s < 65536 -> crc_run s l < 65536.
Proof.
  revert s. induction l as [|b l IH]; intros s Hs; cbn [crc_run fold_left].
  - exact Hs.
  - apply IH. apply crc_byte_lt.
Qed.

Lemma crc16_lt m : crc16 m < 65536.
Proof. apply (crc_run_lt mask16 m). reflexivity. Qed.

Lemma crc_run_app s a b : crc_run s (a ++ b) = crc_run (crc_run s a) b.
Proof. apply fold_left_app. Qed.

Lemma crc_run_lxor a : forall b s t, length a = length b ->
  crc_run (N.lxor s t) (xor_bytes a b) = N.lxor (crc_run s a) (crc_run t b).
Proof.
  induction a as [|x a IH]; intros [|y b] s t Hl; try discriminate Hl.
  - reflexivity.
  - cbn [xor_bytes crc_run fold_left]. rewrite crc_byte_lxor.
    apply IH. injection Hl as Hl. exact Hl.
Qed.

Lemma xor_bytes_length a : forall b, length a = length b -> length (xor_bytes a b) = length a.
Proof.
  induction a as [|x a IH]; intros [|y b] Hl; try discriminate Hl; cbn [xor_bytes length].
  - reflexivity.
  - f_equal. apply IH. injection Hl as Hl. exact Hl.
Qed.

Lemma xor_bytes_is_bytes a : forall b, is_bytes a -> is_bytes b -> is_bytes (xor_bytes a b).
Proof.
  induction a as [|x a IH]; intros [|y b] Ha Hb; cbn [xor_bytes]; try constructor.
  - inversion Ha; inversion Hb; subst. apply lxor_lt8; assumption.
  - inversion Ha; inversion Hb; subst. apply IH; assumption.
Qed.

(* ------------------------------------------------------------------ *)
(* 3. the bit-serial register *)

Lemma bstep_false s : bstep s false = crc_shift s.
Proof. unfold bstep, bit_mask. rewrite N.lxor_0_r. reflexivity. Qed.

Lemma bstep_lt s b : bstep s b < 65536.
Proof. apply crc_shift_lt. Qed.

Lemma bstep_lxor s t a b : bstep (N.lxor s t) (xorb a b) = N.lxor (bstep s a) (bstep t b).
Proof.
  unfold bstep. rewrite <- crc_shift_lxor. f_equal.
  rewrite lxor_swap. f_equal. destruct a, b; reflexivity.
Qed.

Lemma brun_cons s b l : brun s (b :: l) = brun (bstep s b) l.
Proof. reflexivity. Qed.

Lemma zeros_S n : zeros (S n) = false :: zeros n.
Proof. reflexivity. Qed.

Lemma brun_app s a b : brun s (a ++ b) = brun (brun s a) b.
Proof. apply fold_left_app. Qed.

Lemma brun_lt s l : s < 65536 -> brun s l < 65536.
Proof.
  revert s. induction l as [|b l IH]; intros s Hs; cbn [brun fold_left].
  - exact Hs.
  - apply IH. apply bstep_lt.
Qed.

Lemma brun_zeros_0 n : brun 0 (zeros n) = 0.
Proof. induction n as [|n IH]; [reflexivity|]. rewrite zeros_S, brun_cons. exact IH. Qed.

(* shifting only (zero input bits) is linear *)
Lemma brun_zeros_lxor n : forall s t,
  brun (N.lxor s t) (zeros n) = N.lxor (brun s (zeros n)) (brun t (zeros n)).
Proof.
  induction n as [|n IH]; intros s t; [reflexivity|].
  rewrite zeros_S, !brun_cons, !bstep_false, crc_shift_lxor. apply IH.
Qed.

(* superposition: the run from s over l is the run from s over zero bits xor the run from 0 over l *)
Lemma brun_split l : forall s,
  brun s l = N.lxor (brun s (zeros (length l))) (brun 0 l).
Proof.
  induction l as [|b l IH]; intros s.
  - cbn. rewrite N.lxor_0_r. reflexivity.
  - cbn [length]. rewrite zeros_S, !brun_cons.
    rewrite (IH (bstep s b)), (IH (bstep 0 b)), <- N.lxor_assoc. f_equal.
    rewrite <- brun_zeros_lxor. f_equal.
    rewrite <- bstep_lxor, N.lxor_0_r, xorb_false_l. reflexivity.
Qed.

(* a whole octet: crc_byte is eight bit steps, most significant bit first *)
Lemma crc_byte_bits_0 : forall b, b < 256 -> crc_byte 0 b = brun 0 (bits_of_byte b).
Proof.
  intros b Hb. apply N.eqb_eq.
  apply (sweep8 (fun b => crc_byte 0 b =? brun 0 (bits_of_byte b))); [|exact Hb].
  vm_compute. reflexivity.
Qed.

Lemma crc_byte_0_shifts s : crc_byte s 0 = brun s (zeros 8).
Proof.
  unfold crc_byte. cbv zeta. change (N.shiftl (N.land 0 255) 8) with 0. rewrite N.lxor_0_r.
  cbn [zeros repeat brun fold_left]. rewrite !bstep_false. reflexivity.
Qed.

Lemma crc_byte_bits s b : b < 256 -> crc_byte s b = brun s (bits_of_byte b).
Proof.
  intros Hb.
  rewrite (brun_split (bits_of_byte b) s). change (length (bits_of_byte b)) with 8%nat.
  rewrite <- crc_byte_0_shifts, <- (crc_byte_bits_0 b Hb), <- crc_byte_lxor.
  rewrite N.lxor_0_r, N.lxor_0_l. reflexivity.
Qed.

Lemma crc_run_bits l : is_bytes l -> forall s, crc_run s l = brun s (bits_of l).
Proof.
  induction 1 as [|b l Hb Hl IH]; intros s; [reflexivity|].
  cbn [crc_run fold_left bits_of flat_map]. rewrite brun_app.
  rewrite <- (crc_byte_bits s b Hb). apply IH.
Qed.

(* the shift is injective at 0 on 16-bit states (the generator has constant term 1) *)
Lemma crc_shift_eq_0 s : s < 65536 -> crc_shift s = 0 -> s = 0.
Proof.
  intros Hs H.
  assert (Hc : (negb (crc_shift s =? 0) || (s =? 0)) = true).
  { apply (sweep16 (fun s => negb (crc_shift s =? 0) || (s =? 0))); [|exact Hs].
    vm_compute. reflexivity. }
  rewrite H in Hc. cbn in Hc. apply N.eqb_eq. exact Hc.
Qed.

Lemma brun_zeros_eq_0 n : forall s, s < 65536 -> brun s (zeros n) = 0 -> s = 0.
Proof.
  induction n as [|n IH]; intros s Hs H; [exact H|].
  rewrite zeros_S, brun_cons, bstep_false in H.
  apply crc_shift_eq_0; [exact Hs|]. apply IH; [apply crc_shift_lt | exact H].
Qed.

(* leading zero bits do not move the zero state; trailing zero bits cannot clear a non-zero state *)
Lemma brun_0_zeros_app n l : brun 0 (zeros n ++ l) = brun 0 l.
Proof. rewrite brun_app, brun_zeros_0. reflexivity. Qed.

Lemma brun_app_zeros_neq l n : brun 0 l <> 0 -> brun 0 (l ++ zeros n) <> 0.
Proof.
  intros H H0. rewrite brun_app in H0. apply H.
  apply (brun_zeros_eq_0 n); [|exact H0]. apply brun_lt. reflexivity.
Qed.

(* ------------------------------------------------------------------ *)
(* 4. the frame check *)

Lemma crc16_run m : crc16 m = crc_run mask16 m.
Proof. reflexivity. Qed.

(* the two appended octets are octets and spell the CRC value *)
Lemma crc_bytes_value c : N.shiftr c 8 * 256 + N.land c 255 = c.
Proof.
  rewrite N.shiftr_div_pow2. change 255 with (N.ones 8). rewrite N.land_ones.
  change (2 ^ 8) with 256. rewrite N.mul_comm. symmetry. apply N.div_mod. discriminate.
Qed.

Lemma crc_bytes_is_bytes m : is_bytes (crc_bytes m).
Proof.
  unfold crc_bytes. cbv zeta. pose proof (crc16_lt m) as Hc.
  constructor; [|constructor; [|constructor]].
  - rewrite N.shiftr_div_pow2. change (2 ^ 8) with 256.
    apply N.div_lt_upper_bound; [discriminate | exact Hc].
  - change 255 with (N.ones 8). rewrite N.land_ones. apply N.mod_lt. discriminate.
Qed.

Lemma skipn_app_exact {A} (a b : list A) : skipn (length a) (a ++ b) = b.
Proof. induction a as [|x a IH]; [reflexivity | exact IH]. Qed.

Lemma firstn_app_exact {A} (a b : list A) : firstn (length a) (a ++ b) = a.
Proof. induction a as [|x a IH]; [reflexivity | cbn; f_equal; exact IH]. Qed.

(* an unaltered frame is accepted, whatever the message *)
Lemma crc_frame_clean m : crc_frame_ok (m ++ crc_bytes m) = true.
Proof.
  unfold crc_frame_ok. cbv zeta.
  assert (Hn : (length (m ++ crc_bytes m) - 2 = length m)%nat).
  { rewrite app_length. cbn [crc_bytes length]. lia. }
  rewrite Hn, skipn_app_exact, firstn_app_exact.
  unfold crc_bytes at 1. cbv zeta.
  rewrite crc_bytes_value, N.eqb_refl. cbn [andb].
  apply N.leb_le. rewrite app_length. cbn [crc_bytes length]. lia.
Qed.

(* running the register over the two octets that spell its own value clears it *)
Lemma crc_byte_self_clear hi lo : hi < 256 -> lo < 256 ->
  crc_byte (crc_byte (hi * 256 + lo) hi) lo = 0.
Proof.
  intros Hh Hl. apply N.eqb_eq.
  apply (sweep8 (fun lo => crc_byte (crc_byte (hi * 256 + lo) hi) lo =? 0)); [|exact Hl].
  revert hi Hh.
  assert (H : forallb (fun hi => forallb (fun lo => crc_byte (crc_byte (hi * 256 + lo) hi) lo =? 0)
                                   (Nrange n256)) (Nrange n256) = true) by (vm_compute; reflexivity).
  intros hi Hh. exact (sweep8 _ H hi Hh).
Qed.

(* what the receiver accepts leaves the register, run over the whole frame, at zero *)
Lemma crc_frame_ok_run f : is_bytes f -> crc_frame_ok f = true -> crc_run mask16 f = 0.
Proof.
  intros Hb H. unfold crc_frame_ok in H. cbv zeta in H.
  pose proof (firstn_skipn (length f - 2) f) as Hsplit.
  destruct (skipn (length f - 2) f) as [|hi [|lo [|x r]]] eqn:E; try discriminate H.
  apply andb_prop in H as [H _]. apply N.eqb_eq in H.
  rewrite <- Hsplit in Hb. apply Forall_app in Hb as [_ Hb].
  inversion Hb as [|? ? Hhi Hb']; subst. inversion Hb' as [|? ? Hlo _]; subst.
  rewrite <- Hsplit, crc_run_app, <- crc16_run, H.
  change (crc_run (hi * 256 + lo) [hi; lo]) with (crc_byte (crc_byte (hi * 256 + lo) hi) lo).
  apply crc_byte_self_clear; assumption.
Qed.

(* syndrome: whether a corrupted codeword passes depends on the error pattern alone *)
Lemma crc_frame_syndrome m e : is_bytes m -> is_bytes e ->
  length e = length (m ++ crc_bytes m) ->
  crc_frame_ok (xor_bytes (m ++ crc_bytes m) e) = true -> brun 0 (bits_of e) = 0.
Proof.
  intros Hm He Hl H.
  assert (Hc : is_bytes (m ++ crc_bytes m)).
  { apply Forall_app. split; [exact Hm | apply crc_bytes_is_bytes]. }
  apply crc_frame_ok_run in H; [|apply xor_bytes_is_bytes; assumption].
  rewrite <- (N.lxor_0_r mask16), crc_run_lxor in H by (symmetry; exact Hl).
  rewrite (crc_frame_ok_run _ Hc (crc_frame_clean m)), N.lxor_0_l in H.
  rewrite <- crc_run_bits by exact He. exact H.
Qed.

(* the form used by all detection theorems *)
Lemma crc_detects m e : is_bytes m -> is_bytes e ->
  length e = length (m ++ crc_bytes m) ->
  brun 0 (bits_of e) <> 0 ->
  crc_frame_ok (xor_bytes (m ++ crc_bytes m) e) = false.
Proof.
  intros Hm He Hl Hs.
  destruct (crc_frame_ok (xor_bytes (m ++ crc_bytes m) e)) eqn:E; [|reflexivity].
  exfalso. apply Hs. apply (crc_frame_syndrome m e); assumption.
Qed.

(* ------------------------------------------------------------------ *)
(* 5. the error classes, on bit lists in structural form *)

Lemma weight_app a b : weight (a ++ b) = (weight a + weight b)%nat.
Proof. induction a as [|x a IH]; [reflexivity|]. cbn [app weight]. rewrite IH. lia. Qed.

Lemma weight_zeros n : weight (zeros n) = O.
Proof. induction n as [|n IH]; [reflexivity|]. rewrite zeros_S. cbn [weight]. exact IH. Qed.

Lemma zeros_length n : length (zeros n) = n.
Proof. apply repeat_length. Qed.

(* 5a. one flipped bit *)
Lemma syn_single a z : brun 0 (zeros a ++ true :: zeros z) <> 0.
Proof.
  rewrite brun_0_zeros_app. change (true :: zeros z) with ([true] ++ zeros z).
  apply brun_app_zeros_neq. vm_compute. discriminate.
Qed.

(* 5b. a burst: all flipped bits within 16 consecutive positions.
   Finite part: every non-zero 16-bit word leaves a non-zero register (2^16 words). *)
Fixpoint all_bits (n : nat) : list (list bool) :=
  match n with
  | O => [[]]
  | S n' => map (cons false) (all_bits n') ++ map (cons true) (all_bits n')
  end.

Lemma all_bits_In l : In l (all_bits (length l)).
Proof.
  induction l as [|b l IH]; [left; reflexivity|].
  cbn [length all_bits]. apply in_or_app.
  destruct b; [right | left]; apply in_map; exact IH.
Qed.

Lemma syn_word16 l : length l = 16%nat -> weight l <> O -> brun 0 l <> 0.
Proof.
  intros Hl Hw H.
  assert (Hc : forallb (fun l => negb (brun 0 l =? 0) || (weight l =? 0)%nat) (all_bits 16) = true)
    by (vm_compute; reflexivity).
  rewrite forallb_forall in Hc. specialize (Hc l). rewrite <- Hl in Hc at 1.
  specialize (Hc (all_bits_In l)). rewrite H in Hc. cbn [N.eqb negb orb] in Hc.
  apply Nat.eqb_eq in Hc. contradiction.
Qed.

Lemma syn_short_word w : (length w <= 16)%nat -> weight w <> O -> brun 0 w <> 0.
Proof.
  intros Hl Hw H.
  apply (syn_word16 (w ++ zeros (16 - length w))).
  - rewrite app_length, zeros_length. lia.
  - rewrite weight_app, weight_zeros. lia.
  - rewrite brun_app, H. apply brun_zeros_0.
Qed.

Lemma syn_burst a w z : (length w <= 16)%nat -> weight w <> O ->
  brun 0 (zeros a ++ w ++ zeros z) <> 0.
Proof.
  intros Hl Hw. rewrite brun_0_zeros_app. apply brun_app_zeros_neq.
  apply syn_short_word; assumption.
Qed.

(* 5c. odd weight: the parity of the register follows the parity of the input, because the
   generator x^16+x^12+x^5+1 has an even number of terms (x+1 divides it) *)
Definition par16 (s : N) : bool :=
  fold_left xorb (map (N.testbit s) (Nrange 16)) false.

Lemma par16_bstep s b : s < 65536 -> par16 (bstep s b) = xorb (par16 s) b.
Proof.
  intros Hs. apply eqb_prop.
  assert (Hc : forallb (fun s => eqb (par16 (bstep s true)) (xorb (par16 s) true) &&
                                 eqb (par16 (bstep s false)) (xorb (par16 s) false))
                       (Nrange n65536) = true) by (vm_compute; reflexivity).
  pose proof (sweep16 _ Hc s Hs) as H. cbv beta in H. apply andb_prop in H as [H1 H2].
  destruct b; assumption.
Qed.

Lemma par16_brun l : forall s, s < 65536 -> par16 (brun s l) = xorb (par16 s) (Nat.odd (weight l)).
Proof.
  induction l as [|b l IH]; intros s Hs.
  - cbn [brun fold_left weight Nat.odd]. rewrite xorb_false_r. reflexivity.
  - rewrite brun_cons, (IH _ (bstep_lt s b)), (par16_bstep s b Hs). cbn [weight].
    rewrite xorb_assoc. f_equal. destruct b.
    + change (1 + weight l)%nat with (S (weight l)).
      rewrite Nat.odd_succ, <- Nat.negb_odd. destruct (Nat.odd (weight l)); reflexivity.
    + change (0 + weight l)%nat with (weight l). apply xorb_false_l.
Qed.

Lemma syn_odd l : Nat.odd (weight l) = true -> brun 0 l <> 0.
Proof.
  intros Ho H. pose proof (par16_brun l 0) as Hp. rewrite H, Ho in Hp.
  specialize (Hp ltac:(reflexivity)). vm_compute in Hp. discriminate Hp.
Qed.

(* 5d. two flipped bits: x has order 32767 modulo the generator, so the register started
   from a single injected bit does not come back to the pattern that a second injected bit
   would cancel before 32767 shifts. Finite part: one orbit of 32766 states. *)
Fixpoint orbit_ok (n : nat) (s : N) : bool :=
  match n with
  | O => true
  | S n' => negb (s =? 32768) && orbit_ok n' (crc_shift s)
  end.

Lemma orbit_ok_sound n : forall s, orbit_ok n s = true ->
  forall g, (g < n)%nat -> brun s (zeros g) <> 32768.
Proof.
  induction n as [|n IH]; intros s H g Hg; [lia|].
  cbn [orbit_ok] in H. apply andb_prop in H as [H1 H2].
  destruct g as [|g].
  - cbn. intros E. rewrite E in H1. discriminate H1.
  - rewrite zeros_S, brun_cons, bstep_false. apply (IH _ H2). lia.
Qed.

Definition n32766 : nat := N.to_nat 32766.

Lemma orbit_32766 : orbit_ok n32766 4129 = true.
Proof. vm_compute. reflexivity. Qed.

Lemma syn_double a g z : N.of_nat (g + 1) < 32767 ->
  brun 0 (zeros a ++ true :: zeros g ++ true :: zeros z) <> 0.
Proof.
  intros Hg. rewrite brun_0_zeros_app.
  assert (E : true :: zeros g ++ true :: zeros z = (true :: zeros g ++ [true]) ++ zeros z).
  { cbn [app]. rewrite <- app_assoc. reflexivity. }
  rewrite E. apply brun_app_zeros_neq.
  rewrite brun_cons. change (bstep 0 true) with 4129. rewrite brun_app.
  cbn [brun fold_left]. unfold bstep at 1. cbn [bit_mask]. intros H.
  apply crc_shift_eq_0 in H.
  - apply N.lxor_eq in H. revert H. apply (orbit_ok_sound n32766 4129 orbit_32766).
    unfold n32766. lia.
  - apply lxor_lt16; [apply brun_lt|]; reflexivity.
Qed.

(* ------------------------------------------------------------------ *)
(* 6. from the positional description of an error pattern to the structural form *)

Lemma nth_skipn {A} n : forall (l : list A) k d, nth k (skipn n l) d = nth (n + k) l d.
Proof.
  induction n as [|n IH]; intros l k d; [reflexivity|].
  destruct l as [|x l]; [destruct k; reflexivity|]. cbn [skipn Nat.add nth]. apply IH.
Qed.

Lemma no_true_zeros l : (forall k, nth k l false = true -> False) -> l = zeros (length l).
Proof.
  induction l as [|b l IH]; intros H; [reflexivity|].
  cbn [length]. rewrite zeros_S. f_equal.
  - destruct b; [exfalso; apply (H O); reflexivity | reflexivity].
  - apply IH. intros k Hk. apply (H (S k)). exact Hk.
Qed.

Lemma true_weight l k : nth k l false = true -> weight l <> O.
Proof.
  revert k. induction l as [|b l IH]; intros k H.
  - destruct k; discriminate H.
  - destruct k as [|k]; cbn [nth] in H.
    + subst b. cbn [weight]. lia.
    + cbn [weight]. specialize (IH k H). lia.
Qed.

Lemma single_structure i : forall l, (forall k, nth k l false = true <-> k = i) ->
  exists z, l = zeros i ++ true :: zeros z.
Proof.
  induction i as [|i IH]; intros l H.
  - destruct l as [|b l].
    + exfalso. assert (E : nth 0 (@nil bool) false = true) by (apply H; reflexivity). discriminate E.
    + exists (length l). cbn [zeros repeat app]. f_equal.
      * apply (H O). reflexivity.
      * apply no_true_zeros. intros k Hk. assert (E : S k = O) by (apply H; exact Hk). discriminate E.
  - destruct l as [|b l].
    + exfalso. assert (E : nth (S i) (@nil bool) false = true) by (apply H; reflexivity). discriminate E.
    + destruct (IH l) as [z Hz].
      * intros k. split; intros Hk.
        -- assert (E : S k = S i) by (apply H; exact Hk). injection E as E. exact E.
        -- subst k. apply (H (S i)). reflexivity.
      * exists z. rewrite zeros_S. cbn [app]. f_equal; [|exact Hz].
        destruct b; [|reflexivity]. assert (E : O = S i) by (apply H; reflexivity). discriminate E.
Qed.

Lemma double_structure i : forall j l, (i < j)%nat ->
  (forall k, nth k l false = true <-> (k = i \/ k = j)) ->
  exists z, l = zeros i ++ true :: zeros (j - i - 1) ++ true :: zeros z.
Proof.
  induction i as [|i IH]; intros j l Hij H.
  - destruct l as [|b l].
    + exfalso. assert (E : nth 0 (@nil bool) false = true) by (apply H; left; reflexivity). discriminate E.
    + destruct (single_structure (j - 1) l) as [z Hz].
      * intros k. split; intros Hk.
        -- assert (E : S k = O \/ S k = j) by (apply H; exact Hk). lia.
        -- apply (H (S k)). lia.
      * exists z. cbn [zeros repeat app]. f_equal.
        -- apply (H O). left; reflexivity.
        -- replace (j - 0 - 1)%nat with (j - 1)%nat by lia. exact Hz.
  - destruct l as [|b l].
    + exfalso. assert (E : nth (S i) (@nil bool) false = true) by (apply H; left; reflexivity). discriminate E.
    + destruct j as [|j]; [lia|].
      destruct (IH j l) as [z Hz]; [lia| |].
      * intros k. split; intros Hk.
        -- assert (E : S k = S i \/ S k = S j) by (apply H; exact Hk). lia.
        -- apply (H (S k)). lia.
      * exists z. rewrite zeros_S. cbn [app]. f_equal.
        -- destruct b; [|reflexivity]. assert (E : O = S i \/ O = S j) by (apply H; reflexivity). lia.
        -- replace (S j - S i - 1)%nat with (j - i - 1)%nat by lia. exact Hz.
Qed.

Lemma burst_structure len p : forall l i, nth i l false = true ->
  (forall k, nth k l false = true -> (p <= k < p + len)%nat) ->
  exists a w z, l = zeros a ++ w ++ zeros z /\ (length w <= len)%nat /\ weight w <> O.
Proof.
  induction p as [|p IH]; intros l i Hi H.
  - exists O, (firstn len l), (length (skipn len l)). cbn [zeros repeat app].
    assert (Hz : skipn len l = zeros (length (skipn len l))).
    { apply no_true_zeros. intros k Hk. rewrite nth_skipn in Hk. apply H in Hk. lia. }
    splits.
    + rewrite <- Hz. symmetry. apply firstn_skipn.
    + apply firstn_le_length.
    + intros Hw. apply (true_weight l i Hi).
      rewrite <- (firstn_skipn len l), weight_app, Hw, Hz, weight_zeros. reflexivity.
  - destruct l as [|b l]; [destruct i; discriminate Hi|].
    assert (Hb : b = false).
    { destruct b; [|reflexivity]. specialize (H O eq_refl). lia. }
    subst b. destruct i as [|i]; [discriminate Hi|].
    destruct (IH l i Hi) as (a & w & z & E & Hl & Hw).
    + intros k Hk. specialize (H (S k) Hk). lia.
    + exists (S a), w, z. splits; [|exact Hl|exact Hw]. rewrite zeros_S. cbn [app]. f_equal. exact E.
Qed.

(* ------------------------------------------------------------------ *)
(* 7. detection theorems on frames: m = header and data field as transmitted, followed by
   its two CRC octets; e = error pattern of the same length *)

Lemma crc16_xor m d : length m = length d ->
  crc16 (xor_bytes m d) = N.lxor (crc16 m) (crc_run 0 d).
Proof.
  intros Hl. rewrite !crc16_run. rewrite <- (N.lxor_0_r mask16) at 1.
  apply crc_run_lxor. exact Hl.
Qed.

Lemma crc_run_0_zero_bytes n : crc_run 0 (repeat 0 n) = 0.
Proof. induction n as [|n IH]; [reflexivity|]. cbn [repeat crc_run fold_left]. exact IH. Qed.

Lemma detect_single m e : is_bytes m -> is_bytes e -> length e = length (m ++ crc_bytes m) ->
  single_bit_error e -> crc_frame_ok (xor_bytes (m ++ crc_bytes m) e) = false.
Proof.
  intros Hm He Hl [i H]. apply crc_detects; try assumption.
  destruct (single_structure i (bits_of e) H) as [z E]. rewrite E. apply syn_single.
Qed.

Lemma detect_double m e : is_bytes m -> is_bytes e -> length e = length (m ++ crc_bytes m) ->
  double_bit_error 32767 e -> crc_frame_ok (xor_bytes (m ++ crc_bytes m) e) = false.
Proof.
  intros Hm He Hl (i & j & Hij & Hw & H). apply crc_detects; try assumption.
  destruct (double_structure i j (bits_of e) Hij H) as [z E]. rewrite E. apply syn_double. lia.
Qed.

Lemma detect_burst m e : is_bytes m -> is_bytes e -> length e = length (m ++ crc_bytes m) ->
  burst_error 16 e -> crc_frame_ok (xor_bytes (m ++ crc_bytes m) e) = false.
Proof.
  intros Hm He Hl [[i Hi] [p Hp]]. apply crc_detects; try assumption.
  destruct (burst_structure 16 p (bits_of e) i Hi Hp) as (a & w & z & E & Hw & Hn).
  rewrite E. apply syn_burst; assumption.
Qed.

Lemma detect_odd m e : is_bytes m -> is_bytes e -> length e = length (m ++ crc_bytes m) ->
  odd_weight_error e -> crc_frame_ok (xor_bytes (m ++ crc_bytes m) e) = false.
Proof.
  intros Hm He Hl Ho. apply crc_detects; try assumption. apply syn_odd. exact Ho.
Qed.

Lemma detect_all m e : is_bytes m -> is_bytes e -> length e = length (m ++ crc_bytes m) ->
  crc16_detectable e -> crc_frame_ok (xor_bytes (m ++ crc_bytes m) e) = false.
Proof.
  intros Hm He Hl [H|[H|[H|H]]].
  - apply detect_single; assumption.
  - apply detect_double; assumption.
  - apply detect_burst; assumption.
  - apply detect_odd; assumption.
Qed.

(* ------------------------------------------------------------------ *)
(* 8. the structural form implies the positional one (used for non-vacuity and to show the
   two descriptions are the same classes) *)

Lemma nth_zeros k n : nth k (zeros n) false = false.
Proof. apply nth_repeat. Qed.

Lemma nth_zeros_app a l k : nth k (zeros a ++ l) false = true <-> (a <= k)%nat /\ nth (k - a) l false = true.
Proof.
  destruct (Nat.lt_ge_cases k a) as [Hk|Hk].
  - rewrite app_nth1 by (rewrite zeros_length; exact Hk). rewrite nth_zeros.
    split; [discriminate | intros [H _]; lia].
  - rewrite app_nth2 by (rewrite zeros_length; exact Hk). rewrite zeros_length.
    split; [intros H; split; [exact Hk | exact H] | intros [_ H]; exact H].
Qed.

Lemma nth_true_zeros z k : nth k (true :: zeros z) false = true <-> k = O.
Proof.
  destruct k as [|k]; cbn [nth]; [split; reflexivity|].
  rewrite nth_zeros. split; discriminate.
Qed.

Lemma single_of_structure e i z : bits_of e = zeros i ++ true :: zeros z -> single_bit_error e.
Proof.
  intros E. exists i. intros k. unfold bit_at. rewrite E, nth_zeros_app, nth_true_zeros. lia.
Qed.

Lemma double_of_structure w e i g z : N.of_nat (g + 1) < w ->
  bits_of e = zeros i ++ true :: zeros g ++ true :: zeros z -> double_bit_error w e.
Proof.
  intros Hw E. exists i, (i + g + 1)%nat. splits; [lia | |].
  - replace (i + g + 1 - i)%nat with (g + 1)%nat by lia. exact Hw.
  - intros k. unfold bit_at. rewrite E, nth_zeros_app.
    destruct (k - i)%nat as [|k'] eqn:Ek.
    + cbn [nth]. split; [intros [H _]; lia | intros [H|H]; [split; [lia|reflexivity] | lia]].
    + cbn [nth]. rewrite nth_zeros_app, nth_true_zeros. lia.
Qed.

Lemma weight_true l : weight l <> O -> exists k, nth k l false = true.
Proof.
  induction l as [|b l IH]; intros H; [exfalso; apply H; reflexivity|].
  destruct b.
  - exists O. reflexivity.
  - cbn [weight] in H. destruct (IH ltac:(lia)) as [k Hk]. exists (S k). exact Hk.
Qed.

Lemma burst_of_structure len e a w z : bits_of e = zeros a ++ w ++ zeros z ->
  (length w <= len)%nat -> weight w <> O -> burst_error len e.
Proof.
  intros E Hl Hw. unfold burst_error, bit_at. rewrite E. split.
  - destruct (weight_true w Hw) as [k Hk]. exists (a + k)%nat.
    apply nth_zeros_app. split; [lia|]. replace (a + k - a)%nat with k by lia.
    assert (Hlt : (k < length w)%nat).
    { destruct (Nat.lt_ge_cases k (length w)) as [L|L]; [exact L|].
      rewrite nth_overflow in Hk by exact L. discriminate Hk. }
    rewrite app_nth1 by exact Hlt. exact Hk.
  - exists a. intros k Hk. apply nth_zeros_app in Hk as [Ha Hk]. split; [exact Ha|].
    destruct (Nat.lt_ge_cases (k - a) (length w)) as [L|L]; [lia|].
    rewrite app_nth2 in Hk by exact L. rewrite nth_zeros in Hk. discriminate Hk.
Qed.

(* ------------------------------------------------------------------ *)
(* 9. the receiver: the frame is delimited by the first four octets, which the errors under
   consideration do not touch *)

Lemma frame_len_header_only b : frame_len_of_header b = frame_len_of_header (firstn 4 b).
Proof. destruct b as [|b0 [|b1 [|b2 [|b3 r]]]]; reflexivity. Qed.

Lemma crc_flag_header_only b : crc_flag_of_header b = crc_flag_of_header (firstn 4 b).
Proof. destruct b as [|b0 r]; reflexivity. Qed.

Lemma frame_len_same_header a b : firstn 4 a = firstn 4 b -> frame_len_of_header a = frame_len_of_header b.
Proof. intros H. rewrite (frame_len_header_only a), (frame_len_header_only b), H. reflexivity. Qed.

Lemma crc_flag_same_header a b : firstn 4 a = firstn 4 b -> crc_flag_of_header a = crc_flag_of_header b.
Proof. intros H. rewrite (crc_flag_header_only a), (crc_flag_header_only b), H. reflexivity. Qed.

(* same first four octets and enough octets on both sides: the same number of octets is taken *)
Lemma frame_span_same_header a b f g : firstn 4 a = firstn 4 b ->
  frame_span a = Some f -> frame_span b = Some g -> length f = length g.
Proof.
  unfold frame_span. intros H Ha Hb. rewrite (frame_len_same_header a b H) in Ha.
  destruct (frame_len_of_header b) as [n|]; [|discriminate Ha].
  destruct (Nat.leb_spec n (length a)) as [La|La]; [|discriminate Ha].
  destruct (Nat.leb_spec n (length b)) as [Lb|Lb]; [|discriminate Hb].
  injection Ha as <-. injection Hb as <-. rewrite !firstn_length. lia.
Qed.

Lemma xor_untouched_header c e t : length c = length e -> fixed_header_untouched e ->
  firstn 4 (xor_bytes c e ++ t) = firstn 4 c.
Proof.
  unfold fixed_header_untouched. intros Hl H.
  destruct e as [|e0 [|e1 [|e2 [|e3 e']]]]; try discriminate H.
  injection H as -> -> -> ->.
  destruct c as [|c0 [|c1 [|c2 [|c3 c']]]]; try discriminate Hl.
  cbn [xor_bytes app firstn]. rewrite !N.lxor_0_r. reflexivity.
Qed.

Section Receiver.
  (* the decoder of the codec model (Ok p = Some p, any error = None); the only fact used about
     it is that with the CRC flag set it accepts only if the frame it delimited passes the check *)
  Variable PDU : Type.
  Variable decode : list N -> option PDU.
  Hypothesis decode_checks_crc : forall b p, decode b = Some p -> crc_flag_of_header b = true ->
    exists f, frame_span b = Some f /\ crc_frame_ok f = true.

  Lemma corrupt_rejected m e t :
    is_bytes m -> is_bytes e ->
    crc_flag_of_header m = true ->
    frame_len_of_header m = Some (length m + 2)%nat ->
    length e = length (m ++ crc_bytes m) ->
    fixed_header_untouched e ->
    crc16_detectable e ->
    decode (xor_bytes (m ++ crc_bytes m) e ++ t) = None.
  Proof.
    intros Hm He Hflag Hlen Hl Hfix Hdet.
    set (c := m ++ crc_bytes m) in *. set (r := xor_bytes c e).
    destruct (decode (r ++ t)) as [p|] eqn:D; [exfalso|reflexivity].
    assert (Hc4 : firstn 4 c = firstn 4 m).
    { unfold c. destruct m as [|b0 [|b1 [|b2 [|b3 m']]]]; try discriminate Hlen. reflexivity. }
    assert (H4 : firstn 4 (r ++ t) = firstn 4 m).
    { unfold r. rewrite xor_untouched_header; [exact Hc4 | symmetry; exact Hl | exact Hfix]. }
    assert (Hrl : length r = (length m + 2)%nat).
    { unfold r. rewrite xor_bytes_length by (symmetry; exact Hl).
      unfold c. rewrite app_length. reflexivity. }
    destruct (decode_checks_crc (r ++ t) p D) as (f & Hspan & Hok).
    { rewrite (crc_flag_same_header _ m H4). exact Hflag. }
    unfold frame_span in Hspan. rewrite (frame_len_same_header _ m H4), Hlen in Hspan.
    destruct (Nat.leb_spec (length m + 2) (length (r ++ t))) as [L|L]; [|discriminate Hspan].
    injection Hspan as <-. rewrite <- Hrl, firstn_app_exact in Hok.
    unfold r, c in Hok. rewrite (detect_all m e Hm He Hl Hdet) in Hok. discriminate Hok.
  Qed.
End Receiver.

(* ------------------------------------------------------------------ *)
(* 10. decidable side conditions and concrete instances (non-vacuity, tightness of the window) *)

Lemma is_bytes_check l : forallb (fun b => b <? 256) l = true -> is_bytes l.
Proof.
  intros H. apply Forall_forall. intros b Hb.
  rewrite forallb_forall in H. apply N.ltb_lt. apply H. exact Hb.
Qed.

Fixpoint bits_eqb (a b : list bool) : bool :=
  match a, b with
  | [], [] => true
  | x :: a', y :: b' => Bool.eqb x y && bits_eqb a' b'
  | _, _ => false
  end.

Lemma bits_eqb_eq a : forall b, bits_eqb a b = true -> a = b.
Proof.
  induction a as [|x a IH]; intros [|y b] H; try discriminate H; [reflexivity|].
  cbn [bits_eqb] in H. apply andb_prop in H as [H1 H2].
  apply eqb_prop in H1. subst y. f_equal. apply IH. exact H2.
Qed.

(* the historical witness of the defect fixed by /repo commit dded641: the encoding of
   EoF{PositiveLimitReached, checksum 11840, size 100, fault location U8(1)}, ids 1/7/2, CRC on *)
Definition witness_msg : list N :=
  [34; 0; 15; 0; 1; 7; 2; 4; 16; 0; 0; 46; 64; 0; 0; 0; 100; 6; 0; 1].
(* bit 0x10 of the condition octet (octet 8) *)
Definition witness_err : list N := repeat 0 8 ++ [16] ++ repeat 0 13.

Lemma witness_facts :
  is_bytes witness_msg /\ is_bytes witness_err /\
  crc_bytes witness_msg = [77; 183] /\
  crc_flag_of_header witness_msg = true /\
  frame_len_of_header witness_msg = Some (length witness_msg + 2)%nat /\
  length witness_err = length (witness_msg ++ crc_bytes witness_msg) /\
  fixed_header_untouched witness_err /\
  single_bit_error witness_err /\ burst_error 16 witness_err /\ odd_weight_error witness_err.
Proof.
  splits; try (vm_compute; reflexivity); try (apply is_bytes_check; vm_compute; reflexivity).
  - apply (single_of_structure _ 67 108). vm_compute. reflexivity.
  - apply (burst_of_structure 16 _ 67 [true] 108); [vm_compute; reflexivity | cbn; lia | cbn; lia].
Qed.

(* two flips 9 bits apart in the checksum field of the same frame *)
Definition witness_err2 : list N := repeat 0 10 ++ [1; 1] ++ repeat 0 10.
Lemma witness_err2_double : is_bytes witness_err2 /\
  length witness_err2 = length (witness_msg ++ crc_bytes witness_msg) /\
  fixed_header_untouched witness_err2 /\ double_bit_error 32767 witness_err2.
Proof.
  splits; try (vm_compute; reflexivity); try (apply is_bytes_check; vm_compute; reflexivity).
  apply (double_of_structure 32767 _ 87 7 80); [reflexivity | vm_compute; reflexivity].
Qed.

(* the window of the double-bit theorem cannot be widened: two flips exactly 32767 bit positions
   apart (bits 32 and 32799 of a frame of 4102 octets) go unnoticed *)
Definition far_msg : list N := repeat 0 (N.to_nat 4100).
Definition far_err : list N := [0; 0; 0; 0; 128] ++ repeat 0 (N.to_nat 4094) ++ [1; 0; 0].

Lemma double_bit_window_tight :
  is_bytes far_msg /\ is_bytes far_err /\ length far_err = length (far_msg ++ crc_bytes far_msg) /\
  fixed_header_untouched far_err /\ double_bit_error 32768 far_err /\
  crc_frame_ok (xor_bytes (far_msg ++ crc_bytes far_msg) far_err) = true.
Proof.
  split; [apply is_bytes_check; vm_compute; reflexivity|].
  split; [apply is_bytes_check; vm_compute; reflexivity|].
  split; [vm_compute; reflexivity|].
  split; [reflexivity|].
  split; [|vm_compute; reflexivity].
  apply (double_of_structure 32768 far_err 32 (N.to_nat 32766) 16); [vm_compute; reflexivity|].
  apply bits_eqb_eq. vm_compute. reflexivity.
Qed.

(* ------------------------------------------------------------------ *)
(* 11. the executable check run by the correspondence is an instance of the receiver of section 9 *)

Lemma receiver_frame_check_rejects m e t :
  is_bytes m -> is_bytes e ->
  crc_flag_of_header m = true ->
  frame_len_of_header m = Some (length m + 2)%nat ->
  length e = length (m ++ crc_bytes m) ->
  fixed_header_untouched e ->
  crc16_detectable e ->
  receiver_frame_check (xor_bytes (m ++ crc_bytes m) e ++ t) = false.
Proof.
  intros Hm He Hf Hlen Hl Hfix Hdet.
  pose (dec := fun b : list N => if receiver_frame_check b then Some tt else None).
  assert (H : dec (xor_bytes (m ++ crc_bytes m) e ++ t) = None).
  { apply (corrupt_rejected unit dec); try assumption.
    intros b p Hd Hflag. unfold dec, receiver_frame_check in Hd. rewrite Hflag in Hd.
    destruct (frame_span b) as [f|]; [|discriminate Hd].
    destruct (crc_frame_ok f) eqn:E; [|discriminate Hd]. exists f. split; [reflexivity | exact E]. }
  unfold dec in H. destruct (receiver_frame_check _); [discriminate H | reflexivity].
Qed.

Lemma receiver_frame_check_clean m t :
  crc_flag_of_header m = true ->
  frame_len_of_header m = Some (length m + 2)%nat ->
  receiver_frame_check ((m ++ crc_bytes m) ++ t) = true /\
  receiver_consumed ((m ++ crc_bytes m) ++ t) = Some (length m + 2)%nat.
Proof.
  intros Hf Hlen.
  assert (H4 : firstn 4 ((m ++ crc_bytes m) ++ t) = firstn 4 m).
  { destruct m as [|b0 [|b1 [|b2 [|b3 m']]]]; try discriminate Hlen. reflexivity. }
  assert (Hl : length (m ++ crc_bytes m) = (length m + 2)%nat) by (rewrite app_length; reflexivity).
  unfold receiver_frame_check, receiver_consumed, frame_span.
  rewrite (crc_flag_same_header _ m H4), (frame_len_same_header _ m H4), Hlen, Hf.
  destruct (Nat.leb_spec (length m + 2) (length ((m ++ crc_bytes m) ++ t))) as [L|L].
  - rewrite <- Hl, firstn_app_exact. split; [apply crc_frame_clean | reflexivity].
  - rewrite app_length in L. lia.
Qed.
