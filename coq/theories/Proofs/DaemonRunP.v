(* C11, over histories of the routing core: whatever the daemon does between two Put requests
   (forwarding PDUs of any kind - strays included -, user commands, clean-ups), the transaction
   ids handed out by its first 2^(8w) Put requests are pairwise distinct, and every one of them
   carries this daemon's own entity id. *)
From CFDP Require Import Base.Prelude Model.Daemon Proofs.DaemonP.

Inductive dev :=
| EPut (dest : N) (spawn_ok : bool)
| EFwd (to_sender : bool) (src dst seq : N) (closed : bool)
| ECmd (id : dkey) (closed : bool)
| EClean (ended : list dkey).

(* one handler call: the new state and, for a Put that started a transaction, its id *)
Definition dstep (s : dstate) (e : dev) : dstate * option dkey :=
  match e with
  | EPut dest ok => let '(s', _, id) := d_put dest ok s in (s', id)
  | EFwd ts src dst seq closed => let '(s', _, _) := d_forward ts src dst seq closed s in (s', None)
  | ECmd id closed => let '(s', _, _) := d_command id closed s in (s', None)
  | EClean ended => (d_cleanup ended s, None)
  end.

Fixpoint put_ids (evs : list dev) (s : dstate) : list dkey :=
  match evs with
  | [] => []
  | e :: t => let '(s', id) := dstep s e in
              match id with Some i => i :: put_ids t s' | None => put_ids t s' end
  end.
Fixpoint nputs (evs : list dev) : N :=
  match evs with
  | [] => 0
  | EPut _ _ :: t => 1 + nputs t
  | _ :: t => nputs t
  end.

(* what one handler call does to entity, width and counter *)
Lemma dstep_counter s e :
  let '(s', id) := dstep s e in
  d_entity s' = d_entity s /\ d_width s' = d_width s /\
  match e with
  | EPut _ _ => d_next s' = (d_next s + 1) mod seq_modulus (d_width s) /\
                (id = None \/ id = Some (d_entity s, d_next s))
  | _ => d_next s' = d_next s /\ id = None
  end.
Proof.
  destruct e as [dest ok|ts src dst seq closed|id closed|ended]; cbn [dstep].
  - pose proof (put_counter dest ok s) as H. destruct (d_put dest ok s) as [[s' r] id].
    destruct H as (A & B & C & _ & D). auto.
  - pose proof (forward_counter ts src dst seq closed s) as H.
    destruct (d_forward ts src dst seq closed s) as [[s' r] t]. destruct H as (A & B & C & _). auto.
  - pose proof (command_frame id closed s) as H. destruct (d_command id closed s) as [[s' r] t].
    destruct H as (A & _). subst s'. auto.
  - cbn. auto.
Qed.

(* every id handed out is (this entity, counter + j) for some j below the number of Puts *)
Lemma put_ids_form evs : forall s id, d_next s < seq_modulus (d_width s) -> In id (put_ids evs s) ->
  exists j, j < nputs evs /\ id = (d_entity s, (d_next s + j) mod seq_modulus (d_width s)).
Proof.
  induction evs as [|e t IH]; intros s id Hlt Hin; [destruct Hin|].
  cbn [put_ids] in Hin. pose proof (dstep_counter s e) as H.
  destruct (dstep s e) as [s' oid]. destruct H as (He & Hw & H).
  assert (HM : 0 < seq_modulus (d_width s)) by lia.
  destruct e as [dest ok|ts src dst seq closed|k closed|ended]; cbn [nputs].
  - destruct H as (Hn & Hid).
    assert (Hlt' : d_next s' < seq_modulus (d_width s')).
    { rewrite Hw, Hn. apply N.mod_lt. lia. }
    assert (Hrest : In id (put_ids t s') -> exists j, j < 1 + nputs t /\
                      id = (d_entity s, (d_next s + j) mod seq_modulus (d_width s))).
    { intros Hr. destruct (IH s' id Hlt' Hr) as (j & Hj & E). exists (1 + j). split; [lia|].
      rewrite E, He, Hw, Hn. f_equal. rewrite N.add_mod_idemp_l by lia. f_equal. lia. }
    destruct Hid as [Hid|Hid]; subst oid.
    + apply Hrest. exact Hin.
    + destruct Hin as [E|Hr]; [|apply Hrest; exact Hr].
      exists 0. split; [lia|]. subst id. rewrite N.add_0_r, N.mod_small by exact Hlt. reflexivity.
  - destruct H as (Hn & Hid). subst oid.
    assert (Hlt' : d_next s' < seq_modulus (d_width s')) by (rewrite Hw, Hn; exact Hlt).
    destruct (IH s' id Hlt' Hin) as (j & Hj & E).
    exists j. split; [exact Hj|]. rewrite E, He, Hw, Hn. reflexivity.
  - destruct H as (Hn & Hid). subst oid.
    assert (Hlt' : d_next s' < seq_modulus (d_width s')) by (rewrite Hw, Hn; exact Hlt).
    destruct (IH s' id Hlt' Hin) as (j & Hj & E).
    exists j. split; [exact Hj|]. rewrite E, He, Hw, Hn. reflexivity.
  - destruct H as (Hn & Hid). subst oid.
    assert (Hlt' : d_next s' < seq_modulus (d_width s')) by (rewrite Hw, Hn; exact Hlt).
    destruct (IH s' id Hlt' Hin) as (j & Hj & E).
    exists j. split; [exact Hj|]. rewrite E, He, Hw, Hn. reflexivity.
Qed.

(* C11 over histories: the ids of the first 2^(8w) Put requests are pairwise distinct, whatever
   else the daemon handles in between, and all of them are this entity's *)
Theorem history_put_ids_distinct evs : forall s, d_next s < seq_modulus (d_width s) ->
  nputs evs <= seq_modulus (d_width s) -> NoDup (put_ids evs s).
Proof.
  induction evs as [|e t IH]; intros s Hlt Hn; [constructor|].
  cbn [put_ids]. pose proof (dstep_counter s e) as H.
  destruct (dstep s e) as [s' oid] eqn:Es. destruct H as (He & Hw & H).
  assert (HM : 0 < seq_modulus (d_width s)) by lia.
  destruct e as [dest ok|ts src dst seq closed|k closed|ended]; cbn [nputs] in Hn.
  - destruct H as (Hnx & Hid).
    assert (Hlt' : d_next s' < seq_modulus (d_width s')) by (rewrite Hw, Hnx; apply N.mod_lt; lia).
    assert (Hn' : nputs t <= seq_modulus (d_width s')) by (rewrite Hw; lia).
    destruct Hid as [Hid|Hid]; subst oid; [apply IH; assumption|].
    constructor; [|apply IH; assumption].
    intros Hin. destruct (put_ids_form t s' _ Hlt' Hin) as (j & Hj & E).
    inversion E as [[E1 E2]]. rewrite Hw, Hnx in E2. rewrite N.add_mod_idemp_l in E2 by lia.
    apply (seq_injective (seq_modulus (d_width s)) (d_next s) 0 (1 + j)); [lia|lia|lia|].
    rewrite N.add_0_r, N.mod_small by exact Hlt. rewrite E2. f_equal. lia.
  - destruct H as (Hnx & Hid). subst oid. apply IH; [rewrite Hw, Hnx; exact Hlt|rewrite Hw; exact Hn].
  - destruct H as (Hnx & Hid). subst oid. apply IH; [rewrite Hw, Hnx; exact Hlt|rewrite Hw; exact Hn].
  - destruct H as (Hnx & Hid). subst oid. apply IH; [rewrite Hw, Hnx; exact Hlt|rewrite Hw; exact Hn].
Qed.

Theorem history_put_ids_own evs s id : d_next s < seq_modulus (d_width s) ->
  In id (put_ids evs s) -> fst id = d_entity s.
Proof.
  intros Hlt Hin. destruct (put_ids_form evs s id Hlt Hin) as (j & _ & E). subst id. reflexivity.
Qed.
