(* Proofs about Model/Codec.v: for every reader of the PDU codec
     *_rt       round trip:  decode (encode a ++ rest) = Ok (a, rest)   for well-formed a
     *_len      length:      blen (encode a) = encoded_len a            for well-formed a
     *_ok       inversion:   decode b = Ok (a, rest) -> a well-formed, rest a byte string,
                             encoded_len a + blen rest <= blen b
     *_nopanic  totality:    decode b <> Panic  on byte strings
   and from them the theorems pinned in Props/C05.v and Props/C06.v. *)
From CFDP Require Import Base.Prelude Model.Pdu Model.CodecBase Model.Codec Model.Crc
  Proofs.EnumsP Proofs.CodecBaseP.

Local Ltac enum_sweep := intros; repeat match goal with x : _ |- _ => destruct x end; vm_compute; reflexivity.

(* ------------------------------------------------------------------ VariableID *)

Lemma varid_be_blen i : blen (varid_be i) = varid_len i.
Proof. destruct i; cbn [varid_be varid_len]; rewrite be_encode_blen; reflexivity. Qed.

Lemma varid_be_length i : length (varid_be i) = N.to_nat (varid_len i).
Proof. destruct i; cbn [varid_be varid_len]; rewrite be_encode_length; reflexivity. Qed.

Lemma varid_len_pos i : 1 <= varid_len i <= 8.
Proof. destruct i; cbn [varid_len]; lia. Qed.

Lemma varid_of_bytes_be i : wf_varid i -> varid_of_bytes (varid_be i) = Ok i.
Proof.
  destruct i; cbn [wf_varid varid_be]; intros H; unfold varid_of_bytes;
    rewrite be_encode_length; rewrite be_decode_encode by exact H; reflexivity.
Qed.

Lemma varid_of_bytes_ok c i :
  is_bytes c -> varid_of_bytes c = Ok i -> wf_varid i /\ varid_len i = blen c.
Proof.
  intros Hc H. pose proof (be_decode_bound c Hc) as Hb. rewrite blen_length in *.
  unfold varid_of_bytes in H.
  destruct (length c) as [|[|[|[|[|[|[|[|[|n]]]]]]]]]; try discriminate H;
    inversion H; subst; clear H; cbn [wf_varid varid_len]; split; try reflexivity; exact Hb.
Qed.

Lemma read_varid_app i r :
  wf_varid i -> read_varid (varid_len i) (varid_be i ++ r) = Ok (i, r).
Proof.
  intros H. unfold read_varid.
  rewrite read_exact_app by (rewrite ?varid_be_blen; pose proof (varid_len_pos i); auto; lia).
  cbn [bind]. rewrite varid_of_bytes_be by exact H. reflexivity.
Qed.

Lemma read_varid_ok n b i r :
  is_bytes b -> read_varid n b = Ok (i, r) ->
  wf_varid i /\ varid_len i = n /\ is_bytes r /\ n + blen r = blen b.
Proof.
  intros Hb H. unfold read_varid in H. inv_ok H.
  apply (read_exact_ok _ _ _ _ Hb) in E as (Hc & Hr & Hl & Hs).
  apply (varid_of_bytes_ok _ _ Hc) in E0 as (Hw & Hv). splits; auto. lia.
Qed.

Lemma read_varid_nopanic n b : n <= 65535 -> read_varid n b <> Panic.
Proof.
  intros Hn. unfold read_varid. apply bind_nopanic; [apply read_exact_nopanic; exact Hn|].
  intros [c r] _. apply bind_nopanic; [|intros; discriminate].
  unfold varid_of_bytes. destruct (length c) as [|[|[|[|[|[|[|[|[|n']]]]]]]]]; discriminate.
Qed.

Lemma varid_encode_blen i : blen (varid_encode i) = 1 + varid_len i.
Proof. unfold varid_encode. rewrite blen_cons, varid_be_blen. reflexivity. Qed.

Lemma varid_decode_rt i r : wf_varid i -> varid_decode (varid_encode i ++ r) = Ok (i, r).
Proof.
  intros H. unfold varid_decode, varid_encode. cbn [app]. rewrite read_u8_cons. cbn [bind].
  replace (varid_len i - 1 + 1) with (varid_len i) by (destruct i; reflexivity).
  rewrite read_exact_app by (rewrite ?varid_be_blen; pose proof (varid_len_pos i); auto; lia).
  cbn [bind]. rewrite varid_of_bytes_be by exact H. reflexivity.
Qed.

Lemma varid_decode_ok b i r :
  is_bytes b -> varid_decode b = Ok (i, r) ->
  wf_varid i /\ is_bytes r /\ 1 + varid_len i + blen r = blen b.
Proof.
  intros Hb H. unfold varid_decode in H. inv_ok H.
  apply (read_u8_ok _ _ _ Hb) in E as (Hn & Hr' & Hl).
  apply (read_exact_ok _ _ _ _ Hr') in E0 as (Hc & Hr & Hlc & Hs).
  apply (varid_of_bytes_ok _ _ Hc) in E1 as (Hw & Hv). splits; auto. lia.
Qed.

Lemma varid_decode_nopanic b : is_bytes b -> varid_decode b <> Panic.
Proof.
  intros Hb. unfold varid_decode. apply bind_nopanic; [apply read_u8_nopanic|].
  intros [l r] E. apply (read_u8_ok _ _ _ Hb) in E as (Hl & Hr & _).
  apply bind_nopanic; [apply read_exact_nopanic; lia|]. intros [c r'] _.
  apply bind_nopanic; [|intros; discriminate].
  unfold varid_of_bytes. destruct (length c) as [|[|[|[|[|[|[|[|[|n']]]]]]]]]; discriminate.
Qed.

(* ------------------------------------------------------------------ file-size-sensitive fields *)

Lemma fss_encode_blen f v : blen (fss_encode f v) = fss_len f.
Proof. destruct f; unfold fss_encode; rewrite be_encode_blen; reflexivity. Qed.

Lemma read_fss_app f v r : wf_fss f v -> read_fss f (fss_encode f v ++ r) = Ok (v, r).
Proof.
  destruct f; cbn [wf_fss]; intros H; unfold read_fss, fss_encode; cbn [fss_bytes];
    apply read_be_app; try exact H; cbv; discriminate.
Qed.

Lemma read_fss_ok f b v r :
  is_bytes b -> read_fss f b = Ok (v, r) -> wf_fss f v /\ is_bytes r /\ fss_len f + blen r = blen b.
Proof.
  intros Hb H. unfold read_fss in H. apply (read_be_ok _ _ _ _ Hb) in H as (Hv & Hr & Hl).
  destruct f; cbn [fss_bytes wf_fss fss_len] in *; splits; auto.
Qed.

Lemma read_fss_nopanic f b : read_fss f b <> Panic.
Proof. unfold read_fss. apply read_be_nopanic. destruct f; cbv; discriminate. Qed.

(* ------------------------------------------------------------------ automation *)

Lemma read_be2_app v r : v < 65536 -> read_be 2 (be_encode 2 v ++ r) = Ok (v, r).
Proof. intros H. apply read_be_app; [exact H | cbv; discriminate]. Qed.
Lemma read_be4_app v r : v < two32 -> read_be 4 (be_encode 4 v ++ r) = Ok (v, r).
Proof. intros H. apply read_be_app; [exact H | cbv; discriminate]. Qed.

(* right-associate the appends of an encoding followed by the rest of the buffer *)
Ltac norm_app := repeat (progress (rewrite <- ?app_assoc; cbn [app])).

(* turn every hypothesis  [reader b = Ok (..)]  whose input is known to be a byte string into
   the facts of its inversion lemma *)
Ltac ok_base :=
  match goal with
  | Hb : is_bytes ?b, E : read_u8 ?b = Ok _ |- _ =>
      apply (read_u8_ok _ _ _ Hb) in E; destruct E as (? & ? & ?)
  | Hb : is_bytes ?b, E : read_be _ ?b = Ok _ |- _ =>
      apply (read_be_ok _ _ _ _ Hb) in E; destruct E as (? & ? & ?)
  | Hb : is_bytes ?b, E : read_exact _ ?b = Ok _ |- _ =>
      apply (read_exact_ok _ _ _ _ Hb) in E; destruct E as (? & ? & ? & ?)
  | Hb : is_bytes ?b, E : read_lv ?b = Ok _ |- _ =>
      apply (read_lv_ok _ _ _ Hb) in E; destruct E as (? & ? & ? & ?)
  | Hb : is_bytes ?b, E : read_name ?b = Ok _ |- _ =>
      apply (read_name_ok _ _ _ Hb) in E; destruct E as (? & ? & ? & ? & ?)
  | Hb : is_bytes ?b, E : read_fss _ ?b = Ok _ |- _ =>
      apply (read_fss_ok _ _ _ _ Hb) in E; destruct E as (? & ? & ?)
  | Hb : is_bytes ?b, E : read_varid _ ?b = Ok _ |- _ =>
      apply (read_varid_ok _ _ _ _ Hb) in E; destruct E as (? & ? & ? & ?)
  | Hb : is_bytes ?b, E : varid_decode ?b = Ok _ |- _ =>
      apply (varid_decode_ok _ _ _ Hb) in E; destruct E as (? & ? & ?)
  | E : read_to_end ?b = Ok _ |- _ => unfold read_to_end in E; inversion E; subst; clear E
  | E : of_option _ = Ok _ |- _ => apply of_option_ok in E
  end.

(* totality: peel one bind *)
Ltac np_bind := apply bind_nopanic; [ | let x := fresh "x" in let E := fresh "E" in intros x E ].

Ltac np_done :=
  intros; repeat match goal with |- context [let '(_, _) := ?p in _] => destruct p end; discriminate.

(* ------------------------------------------------------------------ header *)

Lemma header_b0_fields v t d m c l len sc sm src seq dst :
  let h := mk_header v t d m c l len sc sm src seq dst in
  U3_from_u8 (bits (header_first_byte h) 224 5) = Some v /\
  PDUType_from_u8 (bits (header_first_byte h) 16 4) = Some t /\
  Direction_from_u8 (bits (header_first_byte h) 8 3) = Some d /\
  TransmissionMode_from_u8 (bits (header_first_byte h) 4 2) = Some m /\
  CRCFlag_from_u8 (bits (header_first_byte h) 2 1) = Some c /\
  FileSizeFlag_from_u8 (bits (header_first_byte h) 1 0) = Some l.
Proof. destruct v, t, d, m, c, l; vm_compute; splits; reflexivity. Qed.

Lemma header_b3_fields v t d m c l len sc sm src seq dst :
  let h := mk_header v t d m c l len sc sm src seq dst in
  SegmentationControl_from_u8 (bits (header_fourth_byte h) 128 7) = Some sc /\
  SegmentedData_from_u8 (bits (header_fourth_byte h) 8 3) = Some sm /\
  bits (header_fourth_byte h) 112 4 + 1 = varid_len src /\
  bits (header_fourth_byte h) 7 0 + 1 = varid_len seq.
Proof. destruct sc, sm, src, seq; vm_compute; splits; reflexivity. Qed.

Lemma header_len h : blen (header_encode h) = header_encoded_len h.
Proof.
  unfold header_encode, header_encoded_len.
  rewrite blen_cons, blen_app, be_encode_blen, blen_cons, !blen_app, !varid_be_blen.
  change (N.of_nat 2) with 2. lia.
Qed.

Lemma header_rt h r : wf_header h -> header_decode (header_encode h ++ r) = Ok (h, r).
Proof.
  destruct h as [v t d m c l len sc sm src seq dst].
  unfold wf_header. cbn [h_src h_seq h_dst h_len h_crc]. intros (Hs & Hq & Hd & Hw & Hl).
  destruct (header_b0_fields v t d m c l len sc sm src seq dst) as (A1 & A2 & A3 & A4 & A5 & A6).
  destruct (header_b3_fields v t d m c l len sc sm src seq dst) as (B1 & B2 & B3 & B4).
  unfold header_decode, header_encode. cbn [h_src h_seq h_dst]. norm_app.
  rewrite read_u8_cons. cbn [bind]. rewrite A1, A2, A3, A4, A5, A6. cbn [of_option bind].
  assert (Hwl : header_wire_len (mk_header v t d m c l len sc sm src seq dst) < 65536)
    by (unfold header_wire_len; cbn [h_crc h_len]; destruct c; cbn [crc_len] in Hl; lia).
  rewrite read_be2_app by exact Hwl. cbn [bind].
  assert (Hlen : (match c with
                  | CRCFlag_NotPresent => Ok (header_wire_len (mk_header v t d m c l len sc sm src seq dst))
                  | CRCFlag_Present =>
                      if header_wire_len (mk_header v t d m c l len sc sm src seq dst) <? 2 then Err
                      else Ok (header_wire_len (mk_header v t d m c l len sc sm src seq dst) - 2)
                  end) = Ok len).
  { unfold header_wire_len; cbn [h_crc h_len]. destruct c; [reflexivity|].
    destruct (N.ltb_spec (len + 2) 2); [lia|]. f_equal. lia. }
  rewrite Hlen. cbn [bind]. rewrite read_u8_cons. cbn [bind].
  rewrite B1, B2, B3, B4. cbn [of_option bind].
  rewrite read_varid_app by exact Hs. cbn [bind].
  rewrite read_varid_app by exact Hq. cbn [bind].
  rewrite Hw. rewrite read_varid_app by exact Hd. cbn [bind]. reflexivity.
Qed.

Lemma header_ok b h r :
  is_bytes b -> header_decode b = Ok (h, r) ->
  wf_header h /\ is_bytes r /\ header_encoded_len h + blen r = blen b.
Proof.
  intros Hb H. unfold header_decode in H. inv_ok H. repeat ok_base.
  unfold wf_header, header_encoded_len. cbn [h_src h_seq h_dst h_len h_crc].
  change (256 ^ N.of_nat 2) with 65536 in *. change (N.of_nat 2) with 2 in *.
  match goal with
  | E : match ?c with CRCFlag_NotPresent => Ok ?w | CRCFlag_Present => _ end = Ok ?l |- _ =>
      assert (Hlen : l + crc_len c <= 65535)
        by (destruct c; cbn [crc_len];
            [ inversion E; subst; lia
            | destruct (N.ltb_spec w 2); [discriminate E|]; inversion E; subst; lia ])
  end.
  splits; auto; lia.
Qed.

(* a property of a byte decided by checking all 256 values *)
Ltac by_byte_sweep P b Hb :=
  let S := fresh "S" in
  assert (S : forallb P (below 256) = true) by (vm_compute; reflexivity);
  pose proof (byte_sweep P S b Hb); clear S.

Lemma bits_b3_bounds b : b < 256 -> bits b 112 4 + 1 <= 8 /\ bits b 7 0 + 1 <= 8.
Proof.
  intros Hb. by_byte_sweep (fun b => (bits b 112 4 + 1 <=? 8) && (bits b 7 0 + 1 <=? 8)) b Hb.
  cbv beta in H. apply andb_true_iff in H as [S1 S2]. apply N.leb_le in S1, S2. auto.
Qed.

Lemma header_nopanic b : is_bytes b -> header_decode b <> Panic.
Proof.
  intros Hb. unfold header_decode.
  np_bind; [apply read_u8_nopanic|]. destruct x as [b0 r0]. repeat ok_base.
  repeat (np_bind; [apply of_option_nopanic|]).
  np_bind; [apply read_be_nopanic; cbv; discriminate|].
  match goal with x : (N * bytes)%type |- _ => destruct x as [wl r1] end. repeat ok_base.
  np_bind; [match goal with |- match ?c with _ => _ end <> _ => destruct c end;
            [discriminate | destruct (wl <? 2); discriminate]|].
  np_bind; [apply read_u8_nopanic|].
  match goal with x : (N * bytes)%type |- _ => destruct x as [b3 r2] end. repeat ok_base.
  repeat (np_bind; [apply of_option_nopanic|]).
  match goal with H : b3 < 256 |- _ => destruct (bits_b3_bounds b3 H) as [B1 B2] end.
  np_bind; [apply read_varid_nopanic; lia|].
  match goal with x : (varid * bytes)%type |- _ => destruct x as [src r3] end. repeat ok_base.
  np_bind; [apply read_varid_nopanic; lia|].
  match goal with x : (varid * bytes)%type |- _ => destruct x as [seq r4] end. repeat ok_base.
  np_bind; [apply read_varid_nopanic; lia|].
  np_done.
Qed.

(* ------------------------------------------------------------------ totality automation *)
Ltac np_leaf :=
  first [ apply read_u8_nopanic | apply of_option_nopanic | apply read_fss_nopanic
        | apply read_be_nopanic; cbv; discriminate
        | apply read_lv_nopanic; assumption | apply read_name_nopanic; assumption
        | apply varid_decode_nopanic; assumption
        | apply read_varid_nopanic; lia | apply read_exact_nopanic; lia
        | discriminate ].
Ltac np_step_with tac :=
  apply bind_nopanic;
  [ first [ np_leaf | tac ]
  | let x := fresh "x" in let E := fresh "E" in intros x E;
    match type of x with (_ * _)%type => destruct x as [? ?] | _ => idtac end;
    repeat ok_base ].
Ltac np_step := np_step_with fail.
Ltac np_auto := repeat np_step; try np_done.

(* ------------------------------------------------------------------ filestore request / response *)

Lemma wf_name_intro v : is_bytes v -> blen v <= 255 -> utf8_valid v = true -> wf_name v.
Proof. unfold wf_name, wf_lv. auto. Qed.

Lemma fs_action_b0 a :
  FileStoreAction_from_u8 (bits (N.shiftl (FileStoreAction_to_u8 a) 4) 240 4) = Some a.
Proof. destruct a; vm_compute; reflexivity. Qed.

Lemma fs_request_len q : blen (fs_request_encode q) = fs_request_encoded_len q.
Proof.
  unfold fs_request_encode, fs_request_encoded_len.
  rewrite blen_cons, blen_app, !lv_encode_blen. lia.
Qed.

Lemma fs_request_rt q r :
  wf_fs_request q -> fs_request_decode (fs_request_encode q ++ r) = Ok (q, r).
Proof.
  destruct q as [a f1 f2]. unfold wf_fs_request, wf_name, wf_lv. cbn [fq_first fq_second].
  intros (((_ & L1) & U1) & ((_ & L2) & U2)).
  unfold fs_request_decode, fs_request_encode. cbn [fq_action fq_first fq_second]. norm_app.
  rewrite read_u8_cons. cbn [bind]. rewrite fs_action_b0. cbn [of_option bind].
  rewrite read_name_app by assumption. cbn [bind].
  rewrite read_name_app by assumption. cbn [bind]. reflexivity.
Qed.

Lemma fs_request_ok b q r :
  is_bytes b -> fs_request_decode b = Ok (q, r) ->
  wf_fs_request q /\ is_bytes r /\ fs_request_encoded_len q + blen r = blen b.
Proof.
  intros Hb H. unfold fs_request_decode in H. inv_ok H. repeat ok_base.
  unfold wf_fs_request, fs_request_encoded_len. cbn [fq_first fq_second].
  splits; auto using wf_name_intro; lia.
Qed.

Lemma fs_request_nopanic b : is_bytes b -> fs_request_decode b <> Panic.
Proof. intros Hb. unfold fs_request_decode. np_auto. Qed.

Definition fs_status_action (s : fs_status) : FileStoreAction :=
  match s with
  | St_CreateFile _ => FileStoreAction_CreateFile
  | St_DeleteFile _ => FileStoreAction_DeleteFile
  | St_RenameFile _ => FileStoreAction_RenameFile
  | St_AppendFile _ => FileStoreAction_AppendFile
  | St_ReplaceFile _ => FileStoreAction_ReplaceFile
  | St_CreateDirectory _ => FileStoreAction_CreateDirectory
  | St_RemoveDirectory _ => FileStoreAction_RemoveDirectory
  | St_DenyFile _ => FileStoreAction_DenyFile
  | St_DenyDirectory _ => FileStoreAction_DenyDirectory
  end.

Lemma fs_status_b0 s :
  FileStoreAction_from_u8 (bits (fs_status_u8 s) 240 4) = Some (fs_status_action s) /\
  fs_get_status (fs_status_action s) (bits (fs_status_u8 s) 15 0) = Some s.
Proof. destruct s as [v|v|v|v|v|v|v|v|v]; destruct v; vm_compute; split; reflexivity. Qed.

Lemma fs_response_len p : blen (fs_response_encode p) = fs_response_encoded_len p.
Proof.
  unfold fs_response_encode, fs_response_encoded_len.
  rewrite blen_cons, !blen_app, !lv_encode_blen. lia.
Qed.

Lemma fs_response_rt p r :
  wf_fs_response p -> fs_response_decode (fs_response_encode p ++ r) = Ok (p, r).
Proof.
  destruct p as [s f1 f2 m]. unfold wf_fs_response, wf_name, wf_lv. cbn [fr_first fr_second fr_message].
  intros (((_ & L1) & U1) & ((_ & L2) & U2) & (_ & L3)).
  unfold fs_response_decode, fs_response_encode. cbn [fr_status fr_first fr_second fr_message]. norm_app.
  rewrite read_u8_cons. cbn [bind]. destruct (fs_status_b0 s) as [A1 A2].
  rewrite A1. cbn [of_option bind]. rewrite A2. cbn [of_option bind].
  rewrite read_name_app by assumption. cbn [bind].
  rewrite read_name_app by assumption. cbn [bind].
  rewrite read_lv_app by assumption. cbn [bind]. reflexivity.
Qed.

Lemma fs_response_ok b p r :
  is_bytes b -> fs_response_decode b = Ok (p, r) ->
  wf_fs_response p /\ is_bytes r /\ fs_response_encoded_len p + blen r = blen b.
Proof.
  intros Hb H. unfold fs_response_decode in H. inv_ok H. repeat ok_base.
  unfold wf_fs_response, fs_response_encoded_len, wf_lv. cbn [fr_first fr_second fr_message].
  splits; auto using wf_name_intro; lia.
Qed.

Lemma fs_response_nopanic b : is_bytes b -> fs_response_decode b <> Panic.
Proof. intros Hb. unfold fs_response_decode. np_auto. Qed.

(* ------------------------------------------------------------------ metadata TLVs *)

Lemma handler_rt c r : handler_decode (HandlerCode_to_u8 c :: r) = Ok (c, r).
Proof. unfold handler_decode. rewrite read_u8_cons. cbn [bind]. rewrite HandlerCode_rt. reflexivity. Qed.

Lemma handler_ok b c r :
  is_bytes b -> handler_decode b = Ok (c, r) -> is_bytes r /\ 1 + blen r = blen b.
Proof. intros Hb H. unfold handler_decode in H. inv_ok H. repeat ok_base. auto. Qed.

Lemma handler_nopanic b : handler_decode b <> Panic.
Proof. unfold handler_decode. np_auto. Qed.

Ltac ok_step1 :=
  first
  [ ok_base
  | match goal with
    | Hb : is_bytes ?b, E : fs_request_decode ?b = Ok _ |- _ =>
        apply (fs_request_ok _ _ _ Hb) in E; destruct E as (? & ? & ?)
    | Hb : is_bytes ?b, E : fs_response_decode ?b = Ok _ |- _ =>
        apply (fs_response_ok _ _ _ Hb) in E; destruct E as (? & ? & ?)
    | Hb : is_bytes ?b, E : handler_decode ?b = Ok _ |- _ =>
        apply (handler_ok _ _ _ Hb) in E; destruct E as (? & ?)
    end ].

Lemma tlv_len t : blen (tlv_encode t) = tlv_encoded_len t.
Proof.
  unfold tlv_encode, tlv_encoded_len. rewrite blen_cons. f_equal.
  destruct t; rewrite ?fs_request_len, ?fs_response_len, ?lv_encode_blen, ?varid_encode_blen,
    ?blen_cons, ?blen_nil; reflexivity.
Qed.

Lemma tlv_rt t r : wf_tlv t -> tlv_decode (tlv_encode t ++ r) = Ok (t, r).
Proof.
  intros Hw. unfold tlv_decode, tlv_encode. norm_app. rewrite read_u8_cons. cbn [bind].
  rewrite MetadataTLVFieldCode_rt. cbn [of_option bind].
  destruct t; cbn [tlv_code wf_tlv] in *.
  - rewrite fs_request_rt by exact Hw. reflexivity.
  - rewrite fs_response_rt by exact Hw. reflexivity.
  - destruct Hw as [_ Hl]. rewrite read_lv_app by exact Hl. reflexivity.
  - cbn [app]. rewrite handler_rt. reflexivity.
  - destruct Hw as [_ Hl]. rewrite read_lv_app by exact Hl. reflexivity.
  - rewrite varid_decode_rt by exact Hw. reflexivity.
Qed.

Lemma tlv_ok b t r :
  is_bytes b -> tlv_decode b = Ok (t, r) ->
  wf_tlv t /\ is_bytes r /\ tlv_encoded_len t + blen r = blen b.
Proof.
  intros Hb H. unfold tlv_decode in H. inv_ok H. repeat ok_step1.
  match goal with x : MetadataTLVFieldCode |- _ => destruct x end;
    inv_ok H; repeat ok_step1; unfold tlv_encoded_len; cbn [wf_tlv]; unfold wf_lv; splits; auto; lia.
Qed.

Lemma tlv_nopanic b : is_bytes b -> tlv_decode b <> Panic.
Proof.
  intros Hb. unfold tlv_decode. np_step. np_step.
  match goal with x : MetadataTLVFieldCode |- _ => destruct x end.
  - np_step_with ltac:(apply fs_request_nopanic; assumption). np_done.
  - np_step_with ltac:(apply fs_response_nopanic; assumption). np_done.
  - np_auto.
  - np_step_with ltac:(apply handler_nopanic). np_done.
  - np_auto.
  - np_auto.
Qed.

Lemma tlv_encode_nonempty t : tlv_encode t <> [].
Proof. unfold tlv_encode. discriminate. Qed.

(* ------------------------------------------------------------------ fault location TLV *)

Lemma fault_len fl : blen (fault_encode fl) = fault_encoded_len fl.
Proof.
  destruct fl as [i|]; cbn [fault_encode fault_encoded_len]; [|reflexivity].
  rewrite blen_cons, varid_encode_blen. lia.
Qed.

Lemma eid_code : MetadataTLVFieldCode_from_u8 (MetadataTLVFieldCode_to_u8 MetadataTLVFieldCode_EntityID)
                 = Some MetadataTLVFieldCode_EntityID.
Proof. apply MetadataTLVFieldCode_rt. Qed.

(* ------------------------------------------------------------------ EOF *)

Lemma cond_hi c : Condition_from_u8 (bits (N.shiftl (Condition_to_u8 c) 4) 240 4) = Some c.
Proof. destruct c; vm_compute; reflexivity. Qed.

Lemma eof_len f e : blen (eof_encode f e) = eof_encoded_len f e.
Proof.
  unfold eof_encode, eof_encoded_len.
  rewrite blen_cons, !blen_app, be_encode_blen, fss_encode_blen, fault_len.
  change (N.of_nat 4) with 4. lia.
Qed.

Lemma eof_rt f e r : wf_eof f e -> eof_decode f (eof_encode f e ++ r) = Ok (e, r).
Proof.
  destruct e as [c ck sz fl]. unfold wf_eof. cbn [eof_condition eof_checksum eof_file_size eof_fault_location].
  intros (Hck & Hsz & Hfl & Hiff).
  unfold eof_decode, eof_encode. cbn [eof_condition eof_checksum eof_file_size eof_fault_location].
  norm_app. rewrite read_u8_cons. cbn [bind]. rewrite cond_hi. cbn [of_option bind].
  rewrite read_be4_app by exact Hck. cbn [bind].
  rewrite read_fss_app by exact Hsz. cbn [bind].
  destruct fl as [i|].
  - assert (Hc : c <> Condition_NoError) by (intros ->; destruct Hiff as [Hi _]; discriminate (Hi eq_refl)).
    cbn [fault_encode wf_fault] in *. norm_app.
    destruct c; try (exfalso; apply Hc; reflexivity);
      rewrite read_u8_cons; cbn [bind]; rewrite eid_code; cbn [of_option bind];
      rewrite varid_decode_rt by exact Hfl; reflexivity.
  - destruct Hiff as [_ Hc]. rewrite (Hc eq_refl). cbn [fault_encode app bind]. reflexivity.
Qed.

Lemma eof_ok f b e r :
  is_bytes b -> eof_decode f b = Ok (e, r) ->
  wf_eof f e /\ is_bytes r /\ eof_encoded_len f e + blen r = blen b.
Proof.
  intros Hb H. unfold eof_decode in H. inv_ok H. repeat ok_step1.
  change (256 ^ N.of_nat 4) with two32 in *. change (N.of_nat 4) with 4 in *.
  unfold wf_eof, eof_encoded_len. cbn [eof_condition eof_checksum eof_file_size eof_fault_location].
  match goal with E : match ?c with Condition_NoError => _ | _ => _ end = Ok _ |- _ =>
    destruct c; inv_ok E; repeat ok_step1;
    try match goal with x : MetadataTLVFieldCode, E' : match ?x with _ => _ end = Ok _ |- _ =>
      destruct x; try discriminate E'; inv_ok E'; repeat ok_step1 end
  end;
  cbn [wf_fault fault_encoded_len]; splits; auto; try lia; split; intros; congruence.
Qed.

Lemma eof_nopanic f b : is_bytes b -> eof_decode f b <> Panic.
Proof.
  intros Hb. unfold eof_decode. np_step. np_step. np_step. np_step.
  np_step_with idtac; [|np_done].
  match goal with |- match ?c with _ => _ end <> _ => destruct c end; try discriminate;
    (np_step; np_step; match goal with x : MetadataTLVFieldCode |- _ => destruct x end; try discriminate; np_auto).
Qed.

(* ------------------------------------------------------------------ Finished *)

Definition wf_fin_resp (q : fs_response) : Prop :=
  wf_fs_response q /\ fs_response_encoded_len q <= 255.

Lemma fin_response_blen q : blen (fin_response_encode q) = 2 + fs_response_encoded_len q.
Proof. unfold fin_response_encode. rewrite blen_cons, lv_encode_blen, fs_response_len. lia. Qed.

Lemma fsr_code :
  MetadataTLVFieldCode_from_u8 (MetadataTLVFieldCode_to_u8 MetadataTLVFieldCode_FileStoreResponse)
  = Some MetadataTLVFieldCode_FileStoreResponse.
Proof. apply MetadataTLVFieldCode_rt. Qed.

Lemma finished_loop_nil fuel c : finished_loop fuel c [] = Ok ([], None).
Proof. destruct fuel; reflexivity. Qed.

Lemma fin_classify_resp c : fin_classify c MetadataTLVFieldCode_FileStoreResponse = Fin_response.
Proof. destruct c; reflexivity. Qed.
Lemma fin_classify_fault c :
  c <> Condition_NoError -> fin_classify c MetadataTLVFieldCode_EntityID = Fin_fault.
Proof. destruct c; intros H; try reflexivity. exfalso; apply H; reflexivity. Qed.
Lemma fin_classify_fault_inv c code : fin_classify c code = Fin_fault -> c <> Condition_NoError.
Proof. destruct c, code; cbn; intros H; discriminate. Qed.

Lemma finished_loop_rt c : forall qs fl fuel,
  Forall wf_fin_resp qs -> wf_fault fl -> (c = Condition_NoError -> fl = None) ->
  (length (flat_map fin_response_encode qs ++ fault_encode fl) <= fuel)%nat ->
  finished_loop fuel c (flat_map fin_response_encode qs ++ fault_encode fl) = Ok (qs, fl).
Proof.
  induction qs as [|q qs IH]; intros fl fuel Hq Hf Hc Hfuel.
  - cbn [flat_map app] in *. destruct fl as [i|]; cbn [fault_encode] in *; [|apply finished_loop_nil].
    cbn [length] in Hfuel. destruct fuel as [|fuel]; [lia|].
    cbn [finished_loop]. rewrite read_u8_cons. cbn [bind]. rewrite eid_code. cbn [of_option bind].
    cbn [wf_fault] in Hf.
    rewrite fin_classify_fault by (intros ->; discriminate (Hc eq_refl)).
    rewrite <- (app_nil_r (varid_encode i)). rewrite varid_decode_rt by exact Hf. cbn [bind].
    rewrite finished_loop_nil. reflexivity.
  - inversion Hq as [|? ? [Hwq Hlq] Hqs]; subst. cbn [flat_map] in *.
    unfold fin_response_encode at 1. unfold fin_response_encode at 1 in Hfuel.
    rewrite <- app_assoc in *. cbn [app] in *.
    destruct fuel as [|fuel]; [cbn [length] in Hfuel; lia|].
    assert (Hfuel' : (length (flat_map fin_response_encode qs ++ fault_encode fl) <= fuel)%nat).
    { cbn [length] in Hfuel. rewrite app_length in Hfuel. lia. }
    cbn [finished_loop]. rewrite read_u8_cons. cbn [bind]. rewrite fsr_code. cbn [of_option bind].
    rewrite fin_classify_resp.
    rewrite read_lv_app by (rewrite fs_response_len; exact Hlq). cbn [bind].
    rewrite <- (app_nil_r (fs_response_encode q)). rewrite fs_response_rt by exact Hwq. cbn [bind].
    rewrite IH by assumption. reflexivity.
Qed.

Lemma finished_loop_ok c : forall fuel b qs fl,
  is_bytes b -> finished_loop fuel c b = Ok (qs, fl) ->
  Forall wf_fin_resp qs /\ wf_fault fl /\ (c = Condition_NoError -> fl = None) /\
  fold_left (fun acc q => acc + (2 + fs_response_encoded_len q)) qs 0 + fault_encoded_len fl <= blen b.
Proof.
  induction fuel as [|fuel IH]; intros b qs fl Hb H.
  - destruct b; cbn [finished_loop] in H; [|discriminate].
    inversion H; subst. cbn [fold_left wf_fault fault_encoded_len]. splits; auto. rewrite blen_nil. lia.
  - destruct b as [|x b']; cbn [finished_loop] in H.
    { inversion H; subst. cbn [fold_left wf_fault fault_encoded_len]. splits; auto. rewrite blen_nil. lia. }
    inv_ok H. repeat ok_step1.
    match goal with H : match fin_classify c ?code with _ => _ end = _ |- _ =>
      destruct (fin_classify c code) eqn:Ek end; try discriminate H; inv_ok H; repeat ok_step1;
      match goal with Hr : is_bytes ?b2, E : finished_loop fuel _ ?b2 = Ok _ |- _ =>
        destruct (IH _ _ _ Hr E) as (? & ? & ? & ?) end;
      cbn [fold_left]; try (rewrite fold_sum_shift).
    + splits; auto; [constructor; [split; [assumption | lia] | assumption] | lia].
    + apply fin_classify_fault_inv in Ek.
      match goal with |- context [match ?o with Some _ => _ | None => _ end] => destruct o end;
        cbn [wf_fault fault_encoded_len] in *; splits; auto; try (intros; contradiction); lia.
Qed.

Lemma finished_loop_nopanic c : forall fuel b, is_bytes b -> finished_loop fuel c b <> Panic.
Proof.
  induction fuel as [|fuel IH]; intros b Hb.
  - destruct b; discriminate.
  - destruct b as [|x b']; [discriminate|]. cbn [finished_loop]. np_step. np_step.
    match goal with |- match fin_classify c ?code with _ => _ end <> _ => destruct (fin_classify c code) end;
      [ | | discriminate ].
    + np_step. np_step_with ltac:(apply fs_response_nopanic; assumption).
      np_step_with ltac:(apply IH; assumption). np_done.
    + np_step. np_step_with ltac:(apply IH; assumption). np_done.
Qed.

Lemma fin_fold_eq qs a :
  fold_left (fun acc q => acc + 1 + 1 + fs_response_encoded_len q) qs a
  = fold_left (fun acc q => acc + (2 + fs_response_encoded_len q)) qs a.
Proof. revert a. induction qs as [|q qs IH]; intros a; cbn [fold_left]; [reflexivity|]. rewrite IH. f_equal. lia. Qed.

Lemma fin_b0 c d s :
  let b0 := finished_first_byte (mk_finished c d s [] None) in
  Condition_from_u8 (bits b0 240 4) = Some c /\
  DeliveryCode_from_u8 (bits b0 4 2) = Some d /\
  FileStatusCode_from_u8 (bits b0 3 0) = Some s.
Proof. destruct c, d, s; vm_compute; splits; reflexivity. Qed.

Lemma finished_len p :
  Forall wf_fin_resp (fin_filestore_response p) -> blen (finished_encode p) = finished_encoded_len p.
Proof.
  intros Hq. unfold finished_encode, finished_encoded_len.
  rewrite blen_cons, blen_app, fault_len, fin_fold_eq.
  rewrite (flat_map_blen fin_response_encode (fun q => 2 + fs_response_encoded_len q) wf_fin_resp)
    by (auto using fin_response_blen). lia.
Qed.

Lemma finished_rt p : wf_finished p -> finished_decode (finished_encode p) = Ok (p, []).
Proof.
  destruct p as [c d s qs fl]. unfold wf_finished.
  cbn [fin_condition fin_filestore_response fin_fault_location]. intros (Hq & Hf & Hc).
  unfold finished_decode, finished_encode.
  cbn [fin_condition fin_filestore_response fin_fault_location].
  rewrite read_u8_cons. cbn [bind].
  destruct (fin_b0 c d s) as (A1 & A2 & A3). unfold finished_first_byte in *.
  cbn [fin_condition fin_delivery_code fin_file_status] in *.
  rewrite A1, A2, A3. cbn [of_option bind read_to_end].
  rewrite finished_loop_rt; auto.
Qed.

Lemma finished_ok b p r :
  is_bytes b -> finished_decode b = Ok (p, r) ->
  wf_finished p /\ r = [] /\ finished_encoded_len p <= blen b.
Proof.
  intros Hb H. unfold finished_decode in H. inv_ok H. repeat ok_step1.
  match goal with Hr : is_bytes ?b2, E : finished_loop _ _ ?b2 = Ok _ |- _ =>
    destruct (finished_loop_ok _ _ _ _ _ Hr E) as (Q1 & Q2 & Q3 & Q4) end.
  unfold wf_finished, finished_encoded_len.
  cbn [fin_condition fin_filestore_response fin_fault_location]. rewrite fin_fold_eq.
  splits; auto. lia.
Qed.

Lemma finished_nopanic b : is_bytes b -> finished_decode b <> Panic.
Proof.
  intros Hb. unfold finished_decode. np_step. np_step. np_step. np_step.
  np_step. np_step_with ltac:(apply finished_loop_nopanic; assumption). np_done.
Qed.

(* ------------------------------------------------------------------ ACK *)

Lemma ack_b1 c s :
  let b1 := N.lor (N.shiftl (Condition_to_u8 c) 4) (TransactionStatus_to_u8 s) in
  Condition_from_u8 (bits b1 240 4) = Some c /\ TransactionStatus_from_u8 (bits b1 3 0) = Some s.
Proof. destruct c, s; vm_compute; split; reflexivity. Qed.

Lemma ack_b0 d s :
  let b0 := N.lor (N.shiftl (PDUDirective_to_u8 d) 4) (ACKSubDirective_to_u8 s) in
  PDUDirective_from_u8 (bits b0 240 4) = Some d /\ ACKSubDirective_from_u8 (bits b0 15 0) = Some s.
Proof. destruct d, s; vm_compute; split; reflexivity. Qed.

Lemma ack_len a : blen (ack_encode a) = 2.
Proof. unfold ack_encode. rewrite !blen_cons, blen_nil. reflexivity. Qed.

Lemma ack_rt a r : wf_ack a -> ack_decode (ack_encode a ++ r) = Ok (a, r).
Proof.
  destruct a as [d s c t]. unfold wf_ack. cbn [ack_directive ack_subtype]. intros Hw.
  unfold ack_decode, ack_encode. cbn [ack_directive ack_subtype ack_condition ack_status app].
  rewrite read_u8_cons. cbn [bind].
  destruct (ack_b0 d s) as (A1 & A2). destruct (ack_b1 c t) as (B1 & B2). cbv zeta in *.
  rewrite A1, A2. cbn [of_option bind].
  destruct Hw as [[-> ->] | [-> ->]]; cbn [bind]; rewrite read_u8_cons; cbn [bind];
    rewrite B1, B2; reflexivity.
Qed.

Lemma ack_ok b a r :
  is_bytes b -> ack_decode b = Ok (a, r) -> wf_ack a /\ is_bytes r /\ 2 + blen r = blen b.
Proof.
  intros Hb H. unfold ack_decode in H. inv_ok H. repeat ok_step1.
  unfold wf_ack. cbn [ack_directive ack_subtype].
  match goal with E : match ?d with _ => _ end = Ok _ |- _ =>
    destruct d; try discriminate E;
    match type of E with match ?s with _ => _ end = Ok _ => destruct s; try discriminate E end;
    inversion E; subst end; splits; auto; lia.
Qed.

Lemma ack_nopanic b : ack_decode b <> Panic.
Proof.
  unfold ack_decode. np_step. np_step. np_step.
  np_step_with ltac:(match goal with |- match ?d with _ => _ end <> _ => destruct d end;
                     match goal with |- match ?s with _ => _ end <> _ => destruct s | _ => idtac end; discriminate).
  np_auto.
Qed.

(* ------------------------------------------------------------------ Metadata *)

Lemma md_b0 cl ct :
  let b0 := N.lor (N.shiftl (bool_u8 cl) 6) (ChecksumType_to_u8 ct) in
  negb (bits b0 64 6 =? 0) = cl /\ ChecksumType_from_u8 (bits b0 15 0) = Some ct.
Proof. destruct cl, ct; vm_compute; split; reflexivity. Qed.

Lemma metadata_len f m :
  blen (metadata_encode f m) = metadata_encoded_len f m.
Proof.
  unfold metadata_encode, metadata_encoded_len.
  rewrite blen_cons, !blen_app, fss_encode_blen, !lv_encode_blen.
  rewrite (flat_map_blen tlv_encode tlv_encoded_len (fun _ => True));
    [ lia | intros; apply tlv_len | apply Forall_forall; auto ].
Qed.

Lemma metadata_rt f m : wf_metadata f m -> metadata_decode f (metadata_encode f m) = Ok (m, []).
Proof.
  destruct m as [cl ct sz sn dn opts]. unfold wf_metadata, wf_name, wf_lv.
  cbn [md_file_size md_source_filename md_destination_filename md_options].
  intros (Hsz & ((_ & L1) & U1) & ((_ & L2) & U2) & Ho).
  unfold metadata_decode, metadata_encode.
  cbn [md_closure_requested md_checksum_type md_file_size md_source_filename md_destination_filename md_options].
  rewrite read_u8_cons. cbn [bind]. destruct (md_b0 cl ct) as (A1 & A2). cbv zeta in *.
  rewrite A1, A2. cbn [of_option bind].
  rewrite read_fss_app by exact Hsz. cbn [bind].
  rewrite read_name_app by assumption. cbn [bind].
  rewrite read_name_app by assumption. cbn [bind read_to_end].
  rewrite (repeat_until_empty_rt tlv_decode tlv_encode wf_tlv); auto using tlv_rt, tlv_encode_nonempty.
Qed.

Lemma tlv_ok_le b t r :
  is_bytes b -> tlv_decode b = Ok (t, r) -> wf_tlv t /\ is_bytes r /\ tlv_encoded_len t + blen r <= blen b.
Proof. intros Hb H. destruct (tlv_ok _ _ _ Hb H) as (? & ? & ?). splits; auto. lia. Qed.

Lemma metadata_ok f b m r :
  is_bytes b -> metadata_decode f b = Ok (m, r) ->
  wf_metadata f m /\ r = [] /\ metadata_encoded_len f m <= blen b.
Proof.
  intros Hb H. unfold metadata_decode in H. inv_ok H. repeat ok_step1.
  match goal with Hr : is_bytes ?b2, E : repeat_until_empty tlv_decode ?b2 = Ok _ |- _ =>
    destruct (repeat_dec_ok tlv_decode wf_tlv tlv_encoded_len tlv_ok_le _ _ _ Hr E) as (Q1 & Q2) end.
  unfold wf_metadata, metadata_encoded_len.
  cbn [md_file_size md_source_filename md_destination_filename md_options].
  splits; auto using wf_name_intro. lia.
Qed.

Lemma metadata_nopanic f b : is_bytes b -> metadata_decode f b <> Panic.
Proof.
  intros Hb. unfold metadata_decode. np_step. np_step. np_step. np_step. np_step. np_step.
  np_step_with ltac:(apply (repeat_dec_nopanic tlv_decode wf_tlv tlv_encoded_len tlv_ok_le tlv_nopanic); assumption).
  np_done.
Qed.

(* ------------------------------------------------------------------ NAK *)

Definition wf_seg (f : FileSizeFlag) (s : N * N) : Prop := wf_fss f (fst s) /\ wf_fss f (snd s).

Lemma segment_blen f s : blen (segment_encode f s) = 2 * fss_len f.
Proof. unfold segment_encode. rewrite blen_app, !fss_encode_blen. lia. Qed.

Lemma segment_rt f s r : wf_seg f s -> segment_decode f (segment_encode f s ++ r) = Ok (s, r).
Proof.
  destruct s as [a e]. unfold wf_seg. cbn [fst snd]. intros [Ha He].
  unfold segment_decode, segment_encode. cbn [fst snd]. norm_app.
  rewrite read_fss_app by exact Ha. cbn [bind]. rewrite read_fss_app by exact He. reflexivity.
Qed.

Lemma segment_ok f b s r :
  is_bytes b -> segment_decode f b = Ok (s, r) ->
  wf_seg f s /\ is_bytes r /\ 2 * fss_len f + blen r <= blen b.
Proof.
  intros Hb H. unfold segment_decode in H. inv_ok H. repeat ok_step1.
  unfold wf_seg. cbn [fst snd]. splits; auto. lia.
Qed.

Lemma segment_nopanic f b : is_bytes b -> segment_decode f b <> Panic.
Proof. intros Hb. unfold segment_decode. np_auto. Qed.

Lemma segment_encode_nonempty f s : segment_encode f s <> [].
Proof.
  intros H. pose proof (segment_blen f s) as L. rewrite H, blen_nil in L. destruct f; cbn [fss_len] in L; lia.
Qed.

Lemma nak_len f n : blen (nak_encode f n) = nak_encoded_len f n.
Proof.
  unfold nak_encode, nak_encoded_len. rewrite !blen_app, !fss_encode_blen.
  rewrite (flat_map_blen (segment_encode f) (fun _ => 2 * fss_len f) (fun _ => True));
    [ lia | intros; apply segment_blen | apply Forall_forall; auto ].
Qed.

Lemma nak_rt f n : wf_nak f n -> nak_decode f (nak_encode f n) = Ok (n, []).
Proof.
  destruct n as [s e segs]. unfold wf_nak.
  cbn [nak_start_of_scope nak_end_of_scope nak_segment_requests]. intros (Hs & He & Hq).
  unfold nak_decode, nak_encode. cbn [nak_start_of_scope nak_end_of_scope nak_segment_requests].
  rewrite read_fss_app by exact Hs. cbn [bind]. rewrite read_fss_app by exact He. cbn [bind read_to_end].
  rewrite (repeat_until_empty_rt (segment_decode f) (segment_encode f) (wf_seg f));
    auto using segment_rt, segment_encode_nonempty.
Qed.

Lemma nak_ok f b n r :
  is_bytes b -> nak_decode f b = Ok (n, r) -> wf_nak f n /\ r = [] /\ nak_encoded_len f n <= blen b.
Proof.
  intros Hb H. unfold nak_decode in H. inv_ok H. repeat ok_step1.
  match goal with Hr : is_bytes ?b2, E : repeat_until_empty (segment_decode f) ?b2 = Ok _ |- _ =>
    destruct (repeat_dec_ok (segment_decode f) (wf_seg f) (fun _ => 2 * fss_len f) (segment_ok f) _ _ _ Hr E)
      as (Q1 & Q2) end.
  unfold wf_nak, nak_encoded_len. cbn [nak_start_of_scope nak_end_of_scope nak_segment_requests].
  splits; auto. lia.
Qed.

Lemma nak_nopanic f b : is_bytes b -> nak_decode f b <> Panic.
Proof.
  intros Hb. unfold nak_decode. np_step. np_step. np_step.
  np_step_with ltac:(apply (repeat_dec_nopanic (segment_decode f) (wf_seg f) (fun _ => 2 * fss_len f)
                              (segment_ok f) (segment_nopanic f)); assumption).
  np_done.
Qed.

(* ------------------------------------------------------------------ Prompt, KeepAlive *)

Lemma prompt_b0 p : NakOrKeepAlive_from_u8 (bits (N.shiftl (NakOrKeepAlive_to_u8 p) 7) 128 7) = Some p.
Proof. destruct p; vm_compute; reflexivity. Qed.

Lemma prompt_rt p r : prompt_decode (prompt_encode p ++ r) = Ok (p, r).
Proof.
  unfold prompt_decode, prompt_encode. cbn [app]. rewrite read_u8_cons. cbn [bind].
  rewrite prompt_b0. reflexivity.
Qed.

Lemma prompt_ok b p r : is_bytes b -> prompt_decode b = Ok (p, r) -> is_bytes r /\ 1 + blen r = blen b.
Proof. intros Hb H. unfold prompt_decode in H. inv_ok H. repeat ok_step1. auto. Qed.

Lemma prompt_nopanic b : prompt_decode b <> Panic.
Proof. unfold prompt_decode. np_auto. Qed.

(* ------------------------------------------------------------------ Operations *)

Lemma operations_len f o : wf_operations f o -> blen (operations_encode f o) = operations_encoded_len f o.
Proof.
  intros Hw. unfold operations_encode, operations_encoded_len. rewrite blen_cons. f_equal.
  destruct o; cbn [wf_operations] in Hw.
  - apply eof_len.
  - apply finished_len. destruct Hw as (Hq & _). exact Hq.
  - apply ack_len.
  - apply metadata_len.
  - apply nak_len.
  - unfold prompt_encode. rewrite blen_cons, blen_nil. reflexivity.
  - unfold keepalive_encode. apply fss_encode_blen.
Qed.

Lemma operations_rt f o : wf_operations f o -> operations_decode f (operations_encode f o) = Ok (o, []).
Proof.
  intros Hw. unfold operations_decode, operations_encode. rewrite read_u8_cons. cbn [bind].
  rewrite PDUDirective_rt. cbn [of_option bind].
  destruct o; cbn [op_directive wf_operations] in *.
  - rewrite <- (app_nil_r (eof_encode f e)). rewrite eof_rt by exact Hw. reflexivity.
  - rewrite finished_rt by exact Hw. reflexivity.
  - rewrite <- (app_nil_r (ack_encode a)). rewrite ack_rt by exact Hw. reflexivity.
  - rewrite metadata_rt by exact Hw. reflexivity.
  - rewrite nak_rt by exact Hw. reflexivity.
  - rewrite <- (app_nil_r (prompt_encode p)). rewrite prompt_rt. reflexivity.
  - unfold keepalive_decode, keepalive_encode. rewrite <- (app_nil_r (fss_encode f progress)).
    rewrite read_fss_app by exact Hw. reflexivity.
Qed.

Lemma operations_ok f b o r :
  is_bytes b -> operations_decode f b = Ok (o, r) ->
  wf_operations f o /\ operations_encoded_len f o <= blen b.
Proof.
  intros Hb H. unfold operations_decode in H. inv_ok H. repeat ok_step1.
  match goal with x : PDUDirective |- _ => destruct x end; inv_ok H;
    unfold operations_encoded_len; cbn [wf_operations].
  - match goal with Hr : is_bytes ?b2, E : eof_decode f ?b2 = Ok _ |- _ =>
      destruct (eof_ok _ _ _ _ Hr E) as (? & ? & ?) end. split; auto; lia.
  - match goal with Hr : is_bytes ?b2, E : finished_decode ?b2 = Ok _ |- _ =>
      destruct (finished_ok _ _ _ Hr E) as (? & ? & ?) end. split; auto; lia.
  - match goal with Hr : is_bytes ?b2, E : ack_decode ?b2 = Ok _ |- _ =>
      destruct (ack_ok _ _ _ Hr E) as (? & ? & ?) end. split; auto; lia.
  - match goal with Hr : is_bytes ?b2, E : metadata_decode f ?b2 = Ok _ |- _ =>
      destruct (metadata_ok _ _ _ _ Hr E) as (? & ? & ?) end. split; auto; lia.
  - match goal with Hr : is_bytes ?b2, E : nak_decode f ?b2 = Ok _ |- _ =>
      destruct (nak_ok _ _ _ _ Hr E) as (? & ? & ?) end. split; auto; lia.
  - match goal with Hr : is_bytes ?b2, E : prompt_decode ?b2 = Ok _ |- _ =>
      destruct (prompt_ok _ _ _ Hr E) as (? & ?) end. split; auto; lia.
  - unfold keepalive_decode in *. repeat ok_step1. split; auto; lia.
Qed.

Lemma operations_nopanic f b : is_bytes b -> operations_decode f b <> Panic.
Proof.
  intros Hb. unfold operations_decode. np_step. np_step.
  match goal with x : PDUDirective |- _ => destruct x end.
  - np_step_with ltac:(apply eof_nopanic; assumption). np_done.
  - np_step_with ltac:(apply finished_nopanic; assumption). np_done.
  - np_step_with ltac:(apply ack_nopanic). np_done.
  - np_step_with ltac:(apply metadata_nopanic; assumption). np_done.
  - np_step_with ltac:(apply nak_nopanic; assumption). np_done.
  - np_step_with ltac:(apply prompt_nopanic). np_done.
  - unfold keepalive_decode. np_auto.
Qed.

(* ------------------------------------------------------------------ file data *)

Lemma pack_2_6 c n :
  c < 4 -> n < 64 ->
  bits (N.lor (N.shiftl c 6) n) 192 6 = c /\ bits (N.lor (N.shiftl c 6) n) 63 0 = n.
Proof.
  intros Hc Hn.
  assert (S : forallb (fun c => forallb (fun n =>
                (bits (N.lor (N.shiftl c 6) n) 192 6 =? c) && (bits (N.lor (N.shiftl c 6) n) 63 0 =? n))
                (below 64)) (below 4) = true) by (vm_compute; reflexivity).
  pose proof (sweep _ 4 S c Hc) as S1. cbv beta in S1.
  pose proof (sweep _ 64 S1 n Hn) as S2. cbv beta in S2.
  apply andb_true_iff in S2 as [A B]. apply N.eqb_eq in A, B. auto.
Qed.

Lemma rcs_byte b :
  b < 256 -> bits b 63 0 <= 63 /\ exists s, RecordContinuationState_from_u8 (bits b 192 6) = Some s.
Proof.
  intros Hb.
  by_byte_sweep (fun b => (bits b 63 0 <=? 63) &&
                          match RecordContinuationState_from_u8 (bits b 192 6) with Some _ => true | None => false end) b Hb.
  cbv beta in H. apply andb_true_iff in H as [A B]. apply N.leb_le in A. split; [exact A|].
  destruct (RecordContinuationState_from_u8 (bits b 192 6)) as [s|]; [eauto | discriminate].
Qed.

Lemma file_data_len f d : wf_file_data f d -> blen (file_data_encode f d) = file_data_encoded_len f d.
Proof.
  destruct d; cbn [wf_file_data file_data_encode file_data_encoded_len]; intros Hw.
  - rewrite blen_app, fss_encode_blen. lia.
  - rewrite blen_cons, !blen_app, fss_encode_blen. lia.
Qed.

Lemma file_data_rt f d seg :
  wf_file_data f d ->
  seg = match d with Fd_Unsegmented _ _ => SegmentedData_NotPresent | _ => SegmentedData_Present end ->
  file_data_decode seg f (file_data_encode f d) = Ok (d, []).
Proof.
  intros Hw ->. destruct d; cbn [wf_file_data file_data_encode file_data_decode] in *.
  - destruct Hw as [Ho _]. unfold unsegmented_decode. rewrite read_fss_app by exact Ho. reflexivity.
  - destruct Hw as (_ & Hm & Ho & _). unfold segmented_decode. rewrite read_u8_cons. cbn [bind].
    rewrite as_u8_small by lia.
    destruct (pack_2_6 (RecordContinuationState_to_u8 state) (blen segment_metadata)) as [A B];
      [apply RecordContinuationState_fits | lia |].
    rewrite A, B, RecordContinuationState_rt. cbn [unwrap bind].
    rewrite read_exact_app by (auto; lia). cbn [bind].
    rewrite read_fss_app by exact Ho. reflexivity.
Qed.

Lemma file_data_ok seg f b d r :
  is_bytes b -> file_data_decode seg f b = Ok (d, r) ->
  wf_file_data f d /\ file_data_encoded_len f d <= blen b /\
  seg = match d with Fd_Unsegmented _ _ => SegmentedData_NotPresent | _ => SegmentedData_Present end.
Proof.
  intros Hb H. destruct seg; cbn [file_data_decode] in H.
  - unfold unsegmented_decode in H. inv_ok H. repeat ok_step1.
    cbn [wf_file_data file_data_encoded_len]. splits; auto. lia.
  - unfold segmented_decode in H. inv_ok H. repeat ok_step1.
    match goal with Hx : ?x < 256 |- _ => destruct (rcs_byte x Hx) as [R1 _] end.
    cbn [wf_file_data file_data_encoded_len]. splits; auto; lia.
Qed.

Lemma file_data_nopanic seg f b : is_bytes b -> file_data_decode seg f b <> Panic.
Proof.
  intros Hb. destruct seg; cbn [file_data_decode].
  - unfold unsegmented_decode. np_step. np_step. np_done.
  - unfold segmented_decode. np_step.
    match goal with Hx : ?x < 256 |- _ => destruct (rcs_byte x Hx) as [R1 [s R2]] end.
    rewrite R2. cbn [unwrap bind]. np_step. np_step. np_step. np_done.
Qed.

(* ------------------------------------------------------------------ payload *)

Lemma payload_len f p : wf_payload f p -> blen (payload_encode f p) = payload_encoded_len f p.
Proof.
  destruct p; cbn [wf_payload payload_encode payload_encoded_len];
    [apply operations_len | apply file_data_len].
Qed.

Lemma payload_rt h p :
  wf_payload (h_large h) p -> payload_matches h p ->
  payload_decode (h_pdu_type h) (h_large h) (h_segmeta h) (payload_encode (h_large h) p) = Ok (p, []).
Proof.
  intros Hw Hm. destruct p as [o|d]; cbn [wf_payload payload_matches payload_encode] in *.
  - rewrite Hm. cbn [payload_decode]. rewrite operations_rt by exact Hw. reflexivity.
  - destruct d; destruct Hm as [-> Hs]; cbn [payload_decode];
      rewrite (file_data_rt _ _ _ Hw Hs); reflexivity.
Qed.

Lemma payload_ok h b p r :
  is_bytes b -> payload_decode (h_pdu_type h) (h_large h) (h_segmeta h) b = Ok (p, r) ->
  wf_payload (h_large h) p /\ payload_matches h p /\ payload_encoded_len (h_large h) p <= blen b.
Proof.
  intros Hb H. destruct (h_pdu_type h) eqn:Et; cbn [payload_decode] in H; inv_ok H.
  - match goal with E : operations_decode _ _ = Ok _ |- _ =>
      destruct (operations_ok _ _ _ _ Hb E) as (? & ?) end.
    cbn [wf_payload payload_matches payload_encoded_len]. auto.
  - match goal with E : file_data_decode _ _ _ = Ok _ |- _ =>
      destruct (file_data_ok _ _ _ _ _ Hb E) as (? & ? & Hs) end.
    cbn [wf_payload payload_matches payload_encoded_len]. splits; auto.
    match goal with |- match ?d with _ => _ end => destruct d end; auto.
Qed.

Lemma payload_nopanic t f s b : is_bytes b -> payload_decode t f s b <> Panic.
Proof.
  intros Hb. destruct t; cbn [payload_decode].
  - np_step_with ltac:(apply operations_nopanic; assumption). np_done.
  - np_step_with ltac:(apply file_data_nopanic; assumption). np_done.
Qed.

(* ------------------------------------------------------------------ whole PDU *)

Lemma crc_bytes_blen m : blen (crc_bytes m) = 2.
Proof. unfold crc_bytes. rewrite !blen_cons, blen_nil. reflexivity. Qed.

Lemma crc_bytes_decode m : be_decode (crc_bytes m) = crc16 m.
Proof.
  unfold crc_bytes. rewrite !be_decode_cons, be_decode_nil, blen_cons, blen_nil.
  change (256 ^ (1 + 0)) with 256. change (256 ^ 0) with 1.
  rewrite N.shiftr_div_pow2. change 255 with (N.ones 8). rewrite N.land_ones.
  change (2 ^ 8) with 256. pose proof (N.div_mod (crc16 m) 256). lia.
Qed.

Lemma read_exact_all n c : blen c = n -> n <= 65535 -> read_exact n c = Ok (c, []).
Proof. intros H1 H2. rewrite <- (app_nil_r c) at 1. apply read_exact_app; assumption. Qed.

Lemma firstn_drop_suffix (a c : bytes) : firstn (length (a ++ c) - length c) (a ++ c) = a.
Proof.
  rewrite app_length. replace (length a + length c - length c)%nat with (length a) by lia.
  rewrite firstn_app, Nat.sub_diag, firstn_all. cbn [firstn]. apply app_nil_r.
Qed.

Lemma pdu_len_holds p : wf_pdu p -> blen (pdu_encode p) = pdu_encoded_len p.
Proof.
  destruct p as [h pl]. unfold wf_pdu. cbn [pdu_hdr pdu_pl]. intros (Hh & Hp & Hm & Hl).
  unfold pdu_encode, pdu_encoded_len. cbn [pdu_hdr pdu_pl].
  destruct (h_crc h); cbn [crc_len];
    rewrite ?blen_app, ?crc_bytes_blen, header_len, (payload_len _ _ Hp); lia.
Qed.

Lemma pdu_roundtrip_holds p : wf_pdu p -> pdu_decode (pdu_encode p) = Ok p.
Proof.
  destruct p as [h pl]. unfold wf_pdu. cbn [pdu_hdr pdu_pl]. intros (Hh & Hp & Hm & Hl).
  pose proof (payload_len _ _ Hp) as Lp.
  assert (Hn : h_len h <= 65535) by (destruct Hh as (_ & _ & _ & _ & Hn); lia).
  unfold pdu_decode, pdu_encode. cbn [pdu_hdr pdu_pl].
  destruct (h_crc h) eqn:Ec.
  - rewrite header_rt by exact Hh. cbn [bind].
    rewrite read_exact_all by (auto; lia). cbn [bind].
    rewrite payload_rt by assumption. cbn [bind]. rewrite Ec. reflexivity.
  - remember (crc_bytes (header_encode h ++ payload_encode (h_large h) pl)) as crc eqn:Hcrc.
    rewrite <- app_assoc. rewrite header_rt by exact Hh. cbn [bind].
    rewrite read_exact_app by (auto; lia). cbn [bind].
    rewrite payload_rt by assumption. cbn [bind]. rewrite Ec.
    rewrite app_assoc, firstn_drop_suffix.
    rewrite read_exact_all by (subst crc; first [apply crc_bytes_blen | lia]). cbn [bind].
    subst crc. rewrite crc_bytes_decode, N.eqb_refl. reflexivity.
Qed.

Lemma wf_header_set_len h n : wf_header h -> n <= h_len h -> wf_header (set_len h n).
Proof.
  unfold wf_header, set_len. cbn [h_src h_seq h_dst h_len h_crc]. intros (A & B & C & D & E) Hn.
  splits; auto. lia.
Qed.

Lemma payload_matches_set_len h n p : payload_matches h p -> payload_matches (set_len h n) p.
Proof. destruct p as [o|[ | ]]; cbn [payload_matches set_len h_pdu_type h_segmeta]; auto. Qed.

(* what pdu_decode accepts: header, payload cut from the data field, payload well-formed *)
Lemma pdu_decode_inv b p :
  is_bytes b -> pdu_decode b = Ok p ->
  wf_header (pdu_hdr p) /\ wf_payload (h_large (pdu_hdr p)) (pdu_pl p) /\
  payload_matches (pdu_hdr p) (pdu_pl p) /\
  payload_encoded_len (h_large (pdu_hdr p)) (pdu_pl p) <= h_len (pdu_hdr p) /\
  header_encoded_len (pdu_hdr p) + h_len (pdu_hdr p) + crc_len (h_crc (pdu_hdr p)) <= blen b.
Proof.
  intros Hb H. unfold pdu_decode in H. inv_ok H.
  match goal with E : header_decode b = Ok _ |- _ =>
    destruct (header_ok _ _ _ Hb E) as (Hh & Hr & Hlen) end.
  repeat ok_step1.
  match goal with Hd : is_bytes ?d, E : payload_decode _ _ _ ?d = Ok _ |- _ =>
    destruct (payload_ok _ _ _ _ Hd E) as (Hp & Hm & Hpl) end.
  assert (Hres : p = mk_pdu p0 p1 /\ crc_len (h_crc p0) <= blen b2).
  { destruct (h_crc p0); cbn [crc_len].
    - inversion H; subst. splits; auto; lia.
    - inv_ok H. repeat ok_step1.
      match goal with H' : (if ?c then _ else _) = Ok _ |- _ => destruct c; [|discriminate H'];
        inversion H'; subst end. splits; auto; lia. }
  destruct Hres as (-> & Hc). cbn [pdu_hdr pdu_pl]. splits; auto; lia.
Qed.

Lemma decode_canonical_holds b p :
  is_bytes b -> pdu_decode b = Ok p ->
  wf_pdu (fix_len p) /\ pdu_decode (pdu_encode (fix_len p)) = Ok (fix_len p).
Proof.
  intros Hb H. destruct (pdu_decode_inv _ _ Hb H) as (Hh & Hp & Hm & Hl & _).
  assert (Hw : wf_pdu (fix_len p)).
  { destruct p as [h pl]. unfold wf_pdu, fix_len. cbn [pdu_hdr pdu_pl] in *.
    splits.
    - apply wf_header_set_len; assumption.
    - exact Hp.
    - apply payload_matches_set_len. exact Hm.
    - reflexivity. }
  split; [exact Hw | apply pdu_roundtrip_holds; exact Hw].
Qed.

Lemma decode_total_holds b : is_bytes b -> pdu_decode b <> Panic.
Proof.
  intros Hb. unfold pdu_decode.
  apply bind_nopanic; [apply header_nopanic; exact Hb|]. intros [h r] E.
  destruct (header_ok _ _ _ Hb E) as (Hh & Hr & _).
  assert (Hn : h_len h <= 65535) by (destruct Hh as (_ & _ & _ & _ & Hn); lia).
  apply bind_nopanic; [apply read_exact_nopanic; exact Hn|]. intros [data r2] E2.
  apply (read_exact_ok _ _ _ _ Hr) in E2 as (Hd & Hr2 & _ & _).
  apply bind_nopanic; [apply payload_nopanic; exact Hd|]. intros [pl r3] _.
  destruct (h_crc h); [discriminate|].
  apply bind_nopanic; [apply read_exact_nopanic; lia|]. intros [c r4] _.
  match goal with |- (if ?c then _ else _) <> _ => destruct c end; discriminate.
Qed.

(* every buffer pdu_decode cuts for the payload decoders is at most 65535 bytes long, and
   the instrumented primitive turns any larger request into Panic (read_exact_oversize) *)
Lemma payload_buffer_bounded b h r data r2 :
  is_bytes b -> header_decode b = Ok (h, r) -> read_exact (h_len h) r = Ok (data, r2) ->
  blen data <= 65535.
Proof.
  intros Hb E E2. apply read_exact_inv in E2 as (_ & -> & Hn). exact Hn.
Qed.

(* ------------------------------------------------------------------ history: the code before the
   `fix:` commits (Module Pinned of Model/Codec.v) violates the properties; each witness was
   replayed on the real code by the harness (corpus/codec/*.ops) *)

(* ops.rs:139 `u8_buff[0] + 1`: an entity-id TLV whose length byte is 0xff panics *)
Example pinned_varid_decode_refuted : Pinned.varid_decode [255; 0] = Panic.
Proof. vm_compute. reflexivity. Qed.
Example fixed_varid_decode_witness : varid_decode [255; 0] = Err.
Proof. vm_compute. reflexivity. Qed.

(* header.rs:395 `u16::from_be_bytes(u16_buff) - 2`: CRC flag with a length field below 2 *)
Example pinned_data_field_length_refuted : Pinned.data_field_length CRCFlag_Present 1 = Panic.
Proof. vm_compute. reflexivity. Qed.
Example fixed_short_crc_length_witness : pdu_decode [34; 0; 1; 0; 0; 0; 0] = Err.
Proof. vm_compute. reflexivity. Qed.

(* ops.rs MetadataTLV::encoded_len: the EntityID arm announced one byte less than it encodes *)
Example pinned_tlv_encoded_len_refuted :
  wf_tlv (Tlv_EntityID (VU8 7)) /\
  blen (tlv_encode (Tlv_EntityID (VU8 7))) <> Pinned.tlv_encoded_len (Tlv_EntityID (VU8 7)).
Proof. split; [cbn; lia|]. rewrite tlv_len. vm_compute. discriminate. Qed.

(* pdu.rs PDU::encoded_len: the two CRC bytes were not counted *)
Definition witness_header (crc : CRCFlag) : pdu_header :=
  mk_header U3_One PDUType_FileDirective Direction_ToReceiver TransmissionMode_Acknowledged crc
    FileSizeFlag_Small 5 SegmentationControl_NotPreserved SegmentedData_NotPresent (VU8 1) (VU8 2) (VU8 3).
Definition witness_pdu (crc : CRCFlag) : pdu :=
  mk_pdu (witness_header crc) (Pl_Directive (Op_KeepAlive 9)).

Lemma witness_pdu_wf crc : wf_pdu (witness_pdu crc).
Proof.
  unfold wf_pdu, witness_pdu, wf_header, witness_header. cbn. unfold two32.
  destruct crc; cbn [crc_len]; splits; try reflexivity; lia.
Qed.

Example pinned_pdu_encoded_len_refuted :
  wf_pdu (witness_pdu CRCFlag_Present) /\
  blen (pdu_encode (witness_pdu CRCFlag_Present)) <> Pinned.pdu_encoded_len (witness_pdu CRCFlag_Present).
Proof. split; [apply witness_pdu_wf|]. rewrite pdu_len_holds by apply witness_pdu_wf. vm_compute. discriminate. Qed.

(* ------------------------------------------------------------------ the loops never run out of fuel:
   each iteration consumes at least one byte, so any fuel >= the buffer length gives the same
   result; the model's Err on exhausted fuel is unreachable and no loop of the decoder spins *)

Lemma tlv_progress b t r : is_bytes b -> tlv_decode b = Ok (t, r) -> is_bytes r /\ blen r < blen b.
Proof.
  intros Hb H. destruct (tlv_ok _ _ _ Hb H) as (_ & Hr & Hl). split; [exact Hr|].
  unfold tlv_encoded_len in Hl. lia.
Qed.

Lemma segment_progress f b s r :
  is_bytes b -> segment_decode f b = Ok (s, r) -> is_bytes r /\ blen r < blen b.
Proof.
  intros Hb H. destruct (segment_ok _ _ _ _ Hb H) as (_ & Hr & Hl). split; [exact Hr|].
  destruct f; cbn [fss_len] in Hl; lia.
Qed.

Lemma metadata_options_fuel fuel b :
  is_bytes b -> (length b <= fuel)%nat -> repeat_dec fuel tlv_decode b = repeat_until_empty tlv_decode b.
Proof. apply repeat_dec_fuel. exact tlv_progress. Qed.

Lemma nak_segments_fuel f fuel b :
  is_bytes b -> (length b <= fuel)%nat ->
  repeat_dec fuel (segment_decode f) b = repeat_until_empty (segment_decode f) b.
Proof. apply repeat_dec_fuel. exact (segment_progress f). Qed.

Lemma finished_loop_fuel c : forall f1 f2 b,
  is_bytes b -> (length b <= f1)%nat -> (length b <= f2)%nat ->
  finished_loop f1 c b = finished_loop f2 c b.
Proof.
  induction f1 as [|f1 IH]; intros f2 b Hb H1 H2.
  - destruct b; [destruct f2; reflexivity | cbn [length] in H1; lia].
  - destruct b as [|x b']; [destruct f2; reflexivity|].
    cbn [length] in H1, H2. destruct f2 as [|f2]; [lia|].
    apply is_bytes_cons in Hb as [Hx Hb'].
    cbn [finished_loop]. rewrite read_u8_cons. cbn [bind].
    destruct (of_option (MetadataTLVFieldCode_from_u8 x)) as [code| |]; cbn [bind]; try reflexivity.
    destruct (fin_classify c code); try reflexivity.
    + destruct (read_lv b') as [[v r]| |] eqn:E; cbn [bind]; try reflexivity.
      destruct (read_lv_ok _ _ _ Hb' E) as (_ & _ & Hr & Hl).
      destruct (fs_response_decode v) as [[q r']| |]; cbn [bind]; try reflexivity.
      rewrite !blen_length in Hl. rewrite (IH f2 r) by (auto; lia). reflexivity.
    + destruct (varid_decode b') as [[i r]| |] eqn:E; cbn [bind]; try reflexivity.
      destruct (varid_decode_ok _ _ _ Hb' E) as (_ & Hr & Hl).
      rewrite !blen_length in Hl. rewrite (IH f2 r) by (auto; lia). reflexivity.
Qed.

Lemma loops_fuel_independent_holds :
  (forall fuel b, is_bytes b -> (length b <= fuel)%nat ->
     repeat_dec fuel tlv_decode b = repeat_until_empty tlv_decode b) /\
  (forall f fuel b, is_bytes b -> (length b <= fuel)%nat ->
     repeat_dec fuel (segment_decode f) b = repeat_until_empty (segment_decode f) b) /\
  (forall c fuel b, is_bytes b -> (length b <= fuel)%nat ->
     finished_loop fuel c b = finished_loop (length b) c b).
Proof.
  splits; [exact metadata_options_fuel | exact nak_segments_fuel |].
  intros c fuel b Hb H. apply finished_loop_fuel; auto.
Qed.

(* ------------------------------------------------------------------ interface to the CRC algebra (C15):
   a PDU accepted with the CRC flag set is a prefix of the input whose last two octets are the
   CRC-16 of everything before them, i.e. Model/Crc.v's [crc_frame_ok] holds of the consumed frame *)

Lemma read_be_suffix k b v r : read_be k b = Ok (v, r) -> exists c, b = c ++ r /\ blen c = N.of_nat k.
Proof.
  unfold read_be. intros H. inv_ok H. apply read_exact_inv in E as (-> & Hc & _). eauto.
Qed.
Lemma read_varid_suffix n b i r : read_varid n b = Ok (i, r) -> exists c, b = c ++ r.
Proof.
  unfold read_varid. intros H. inv_ok H. apply read_exact_inv in E as (-> & _ & _). eauto.
Qed.

Lemma header_suffix b h r : header_decode b = Ok (h, r) -> exists hb, b = hb ++ r.
Proof.
  intros H. unfold header_decode in H. inv_ok H.
  repeat match goal with
  | E : read_u8 _ = Ok _ |- _ => apply read_u8_inv in E; subst
  | E : read_be _ _ = Ok _ |- _ => apply read_be_suffix in E as (? & -> & _)
  | E : read_varid _ _ = Ok _ |- _ => apply read_varid_suffix in E as (? & ->)
  end.
  match goal with |- exists hb, ?x :: ?a ++ ?y :: ?c ++ ?d ++ ?e ++ r = _ =>
    exists (x :: a ++ y :: c ++ d ++ e) end.
  cbn [app]. rewrite <- !app_assoc. cbn [app]. rewrite <- !app_assoc. reflexivity.
Qed.

Lemma crc_frame_ok_intro (m c : bytes) :
  blen c = 2 -> crc16 m = be_decode c -> crc_frame_ok (m ++ c) = true.
Proof.
  intros Hc Hcrc. destruct c as [|hi [|lo [|z c']]];
    rewrite ?blen_cons, ?blen_nil in Hc; try lia.
  unfold crc_frame_ok. rewrite app_length. cbn [length].
  replace (length m + 2 - 2)%nat with (length m) by lia.
  rewrite skipn_app, Nat.sub_diag, skipn_all. cbn [skipn app].
  rewrite firstn_app, Nat.sub_diag, firstn_all. cbn [firstn]. rewrite app_nil_r.
  rewrite Hcrc, !be_decode_cons, be_decode_nil, blen_cons, blen_nil.
  change (256 ^ (1 + 0)) with 256. change (256 ^ 0) with 1.
  replace (hi * 256 + (lo * 1 + 0)) with (hi * 256 + lo) by lia. rewrite N.eqb_refl. cbn [andb].
  apply N.leb_le. lia.
Qed.

Lemma pdu_decode_crc_frame b p :
  is_bytes b -> pdu_decode b = Ok p -> h_crc (pdu_hdr p) = CRCFlag_Present ->
  exists frame rest, b = frame ++ rest /\ crc_frame_ok frame = true /\
    blen frame = header_encoded_len (pdu_hdr p) + h_len (pdu_hdr p) + 2.
Proof.
  intros Hb H Hcrc. unfold pdu_decode in H. inv_ok H.
  match goal with E : header_decode b = Ok (?h, ?r) |- _ =>
    destruct (header_suffix _ _ _ E) as (hb & Hhb);
    destruct (header_ok _ _ _ Hb E) as (_ & Hr & Hlen) end.
  match goal with E : read_exact _ _ = Ok _ |- _ => apply read_exact_inv in E as (Hd & Hdl & _) end.
  match goal with H : match h_crc ?h with _ => _ end = Ok p |- _ =>
    destruct (h_crc h) eqn:Ec; [inversion H; subst; cbn [pdu_hdr] in Hcrc; congruence|] end.
  inv_ok H.
  match goal with E : read_exact 2 _ = Ok _ |- _ => apply read_exact_inv in E as (Hc & Hcl & _) end.
  match goal with H : (if ?t then _ else _) = Ok p |- _ => destruct t eqn:Et; [|discriminate H];
    inversion H; subst p; clear H end.
  apply N.eqb_eq in Et. cbn [pdu_hdr]. subst.
  match type of Et with crc16 (firstn _ (?hb' ++ ?d ++ ?c ++ ?r3)) = _ =>
    rewrite (app_assoc hb' d (c ++ r3)) in Et; rewrite firstn_drop_suffix in Et;
    exists ((hb' ++ d) ++ c), r3
  end.
  splits.
  - rewrite <- !app_assoc. reflexivity.
  - apply crc_frame_ok_intro; assumption.
  - rewrite !blen_app in *. lia.
Qed.
