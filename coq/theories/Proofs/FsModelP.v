(* Proofs about Model/FsModel.v: process_request refines the declarative
   specification; a failed request changes nothing; the fail-the-rest loop. *)
From CFDP Require Import Base.Prelude Model.Path Model.FsModel Proofs.PathP.

(* ---------------------------------------------------------------- equality on locations *)
Lemma bytes_eqb_eq a : forall b, bytes_eqb a b = true <-> a = b.
Proof.
  induction a as [|x a' IH]; intros [|y b']; cbn [bytes_eqb]; split; intros H;
    try reflexivity; try discriminate.
  - apply andb_true_iff in H as [H1 H2]. apply N.eqb_eq in H1. apply IH in H2. subst. reflexivity.
  - inversion H; subst. rewrite N.eqb_refl. cbn [andb]. apply IH. reflexivity.
Qed.

Lemma fpath_eqb_eq a : forall b, fpath_eqb a b = true <-> a = b.
Proof.
  induction a as [|x a' IH]; intros [|y b']; cbn [fpath_eqb]; split; intros H;
    try reflexivity; try discriminate.
  - apply andb_true_iff in H as [H1 H2]. apply bytes_eqb_eq in H1. apply IH in H2. subst. reflexivity.
  - inversion H; subst. apply andb_true_iff. split; [apply bytes_eqb_eq | apply IH]; reflexivity.
Qed.

Lemma fpath_eqb_refl a : fpath_eqb a a = true.
Proof. apply fpath_eqb_eq. reflexivity. Qed.

Lemma fpath_eqb_spec a b : reflect (a = b) (fpath_eqb a b).
Proof. apply iff_reflect. symmetry. apply fpath_eqb_eq. Qed.

(* ---------------------------------------------------------------- the finite map *)
Lemma lookup_remove_key p t q :
  lookup (remove_key p t) q = if fpath_eqb p q then None else lookup t q.
Proof.
  induction t as [|[k n] t' IH]; cbn [remove_key filter lookup fst].
  - destruct (fpath_eqb p q); reflexivity.
  - fold (remove_key p t').
    destruct (fpath_eqb_spec k p) as [Ekp|Ekp]; cbn [negb].
    + subst k. rewrite IH. destruct (fpath_eqb p q); reflexivity.
    + cbn [lookup]. rewrite IH.
      destruct (fpath_eqb_spec k q) as [Ekq|Ekq]; [|reflexivity].
      subst k. destruct (fpath_eqb_spec p q) as [Epq|Epq]; [|reflexivity].
      exfalso. apply Ekp. symmetry. exact Epq.
Qed.

Lemma lookup_set t p n q :
  lookup (set_node t p n) q = if fpath_eqb p q then Some n else lookup t q.
Proof.
  unfold set_node. cbn [lookup]. destruct (fpath_eqb p q) eqn:E; [reflexivity|].
  rewrite lookup_remove_key, E. reflexivity.
Qed.

Lemma lookup_remove_subtree p t q :
  lookup (remove_subtree p t) q = if is_prefix p q then None else lookup t q.
Proof.
  induction t as [|[k n] t' IH]; cbn [remove_subtree filter lookup fst].
  - destruct (is_prefix p q); reflexivity.
  - fold (remove_subtree p t').
    destruct (is_prefix p k) eqn:Epk; cbn [negb].
    + rewrite IH. destruct (fpath_eqb_spec k q) as [Ekq|Ekq].
      * subst k. rewrite Epk. reflexivity.
      * reflexivity.
    + cbn [lookup]. rewrite IH. destruct (fpath_eqb_spec k q) as [Ekq|Ekq].
      * subst k. rewrite Epk. reflexivity.
      * reflexivity.
Qed.

(* ---------------------------------------------------------------- process_keys, action by action *)
Definition keys_spec (t : tree) (a : action) (p p2 : fpath) (st : N) (t' : tree) : Prop :=
  st = spec_status t a p p2 /\
  (st = 0 -> forall q, lookup t' q = spec_lookup t a p p2 q) /\
  (st <> 0 -> t' = t).

Ltac done_fail H :=
  cbv beta iota in H; inversion H; subst; clear H; unfold keys_spec; cbv beta iota; splits;
  [ reflexivity | intros Hst; discriminate Hst | intros _; reflexivity ].
Ltac done_ok H :=
  cbv beta iota in H; inversion H; subst; clear H; unfold keys_spec; cbv beta iota; splits;
  [ reflexivity | intros _ q | intros Hst; exfalso; apply Hst; reflexivity ].

Lemma pk_create_file t p p2 st t' :
  process_keys t ACreateFile p p2 = (st, t') -> keys_spec t ACreateFile p p2 st t'.
Proof.
  unfold process_keys, keys_spec, spec_status, spec_lookup, exists_, create_file. intros H.
  destruct (lookup t p) as [n|] eqn:Hp.
  - done_fail H.
  - destruct p as [|x p'].
    + done_fail H.
    + destruct (parent_is_dir t (x :: p')) eqn:Hd.
      * done_ok H. apply lookup_set.
      * done_fail H.
Qed.

Lemma pk_delete_file t p p2 st t' :
  process_keys t ADeleteFile p p2 = (st, t') -> keys_spec t ADeleteFile p p2 st t'.
Proof.
  unfold process_keys, keys_spec, spec_status, spec_lookup, is_file, delete_file. intros H.
  destruct (lookup t p) as [[c|]|] eqn:Hp.
  - done_ok H. apply lookup_remove_key.
  - done_fail H.
  - done_fail H.
Qed.

Lemma pk_rename_file t p p2 st t' :
  process_keys t ARenameFile p p2 = (st, t') -> keys_spec t ARenameFile p p2 st t'.
Proof.
  unfold process_keys, keys_spec, spec_status, spec_lookup, is_file, rename_file, exists_. intros H.
  destruct (lookup t p) as [[c|]|] eqn:Hp.
  - destruct (lookup t p2) as [[c2|]|] eqn:Hp2.
    + done_fail H.
    + done_fail H.
    + destruct (parent_is_dir t p2) eqn:Hd.
      * done_ok H. rewrite lookup_set, lookup_remove_key. reflexivity.
      * done_fail H.
  - done_fail H.
  - done_fail H.
Qed.

Lemma pk_append_file t p p2 st t' :
  process_keys t AAppendFile p p2 = (st, t') -> keys_spec t AAppendFile p p2 st t'.
Proof.
  unfold process_keys, keys_spec, spec_status, spec_lookup, is_file, append_file, content. intros H.
  destruct (lookup t p) as [[c|]|] eqn:Hp.
  - destruct (lookup t p2) as [[c2|]|] eqn:Hp2.
    + done_ok H. apply lookup_set.
    + done_fail H.
    + done_fail H.
  - done_fail H.
  - done_fail H.
Qed.

Lemma pk_replace_file t p p2 st t' :
  process_keys t AReplaceFile p p2 = (st, t') -> keys_spec t AReplaceFile p p2 st t'.
Proof.
  unfold process_keys, keys_spec, spec_status, spec_lookup, is_file, replace_file, content. intros H.
  destruct (lookup t p) as [[c|]|] eqn:Hp.
  - destruct (lookup t p2) as [[c2|]|] eqn:Hp2.
    + done_ok H. apply lookup_set.
    + done_fail H.
    + done_fail H.
  - done_fail H.
  - done_fail H.
Qed.

Lemma pk_create_directory t p p2 st t' :
  process_keys t ACreateDirectory p p2 = (st, t') -> keys_spec t ACreateDirectory p p2 st t'.
Proof.
  unfold process_keys, keys_spec, spec_status, spec_lookup, is_dir, create_directory. intros H.
  destruct (lookup t p) as [[c|]|] eqn:Hp.
  - done_fail H.
  - done_fail H.
  - destruct (parent_is_dir t p) eqn:Hd.
    + done_ok H. apply lookup_set.
    + done_fail H.
Qed.

Lemma pk_remove_directory t p p2 st t' :
  process_keys t ARemoveDirectory p p2 = (st, t') -> keys_spec t ARemoveDirectory p p2 st t'.
Proof.
  unfold process_keys, keys_spec, spec_status, spec_lookup, is_dir, remove_directory. intros H.
  destruct (lookup t p) as [[c|]|] eqn:Hp.
  - done_fail H.
  - done_ok H. apply lookup_remove_subtree.
  - done_fail H.
Qed.

Lemma pk_deny_file t p p2 st t' :
  process_keys t ADenyFile p p2 = (st, t') -> keys_spec t ADenyFile p p2 st t'.
Proof.
  unfold process_keys, keys_spec, spec_status, spec_lookup, is_file, delete_file. intros H.
  destruct (lookup t p) as [[c|]|] eqn:Hp.
  - done_ok H. apply lookup_remove_key.
  - done_fail H.
  - done_fail H.
Qed.

Lemma pk_deny_directory t p p2 st t' :
  process_keys t ADenyDirectory p p2 = (st, t') -> keys_spec t ADenyDirectory p p2 st t'.
Proof.
  unfold process_keys, keys_spec, spec_status, spec_lookup, is_dir, remove_directory. intros H.
  destruct (lookup t p) as [[c|]|] eqn:Hp.
  - done_fail H.
  - done_ok H. apply lookup_remove_subtree.
  - done_fail H.
Qed.

Lemma process_keys_spec t a p p2 st t' :
  process_keys t a p p2 = (st, t') -> keys_spec t a p p2 st t'.
Proof.
  destruct a.
  - apply pk_create_file.
  - apply pk_delete_file.
  - apply pk_rename_file.
  - apply pk_append_file.
  - apply pk_replace_file.
  - apply pk_create_directory.
  - apply pk_remove_directory.
  - apply pk_deny_file.
  - apply pk_deny_directory.
Qed.

(* ---------------------------------------------------------------- names *)
Lemma native_by_names root name :
  native root name = match native_names root name with
                     | Some names => Some (join root (render names))
                     | None => None
                     end.
Proof. reflexivity. Qed.

Lemma native_names_total root name : root_ok root -> exists p, native_names root name = Some p.
Proof.
  intros Hok. destruct (native_shape root name Hok) as (names & _ & Hn).
  rewrite native_by_names in Hn. destruct (native_names root name) as [p|]; [|discriminate].
  exists p. reflexivity.
Qed.

(* process_request refines the specification *)
Lemma process_request_spec root t r : root_ok root ->
  exists p p2 rep t',
    native_names root (req_name1 r) = Some p /\
    native_names root (req_name2 r) = Some p2 /\
    process_request root t r = Some (rep, t') /\
    resp_action rep = req_action r /\
    resp_name1 rep = req_name1 r /\ resp_name2 rep = req_name2 r /\
    resp_status rep = spec_status t (req_action r) p p2 /\
    (resp_status rep = 0 -> forall q, lookup t' q = spec_lookup t (req_action r) p p2 q) /\
    (resp_status rep <> 0 -> t' = t).
Proof.
  intros Hok.
  destruct (native_names_total root (req_name1 r) Hok) as (p & Hp).
  destruct (native_names_total root (req_name2 r) Hok) as (p2 & Hp2).
  unfold process_request. rewrite Hp, Hp2.
  destruct (process_keys t (req_action r) p p2) as [st t'] eqn:Hk.
  destruct (process_keys_spec _ _ _ _ _ _ Hk) as (H1 & H2 & H3).
  exists p, p2, (mk_response (req_action r) st (req_name1 r) (req_name2 r)), t'.
  cbn [resp_action resp_name1 resp_name2 resp_status]. splits; auto.
Qed.

Lemma is_fail_iff rep : is_fail rep = true <-> resp_status rep <> 0.
Proof.
  unfold is_fail, st_successful. destruct (N.eqb_spec (resp_status rep) 0) as [E|E]; cbn [negb]; split; intros H;
    try reflexivity; try discriminate; try assumption. exfalso. apply H. exact E.
Qed.

(* a request that did not succeed changed nothing (no hypothesis on the root needed) *)
Lemma process_request_fail_unchanged root t r rep t' :
  process_request root t r = Some (rep, t') -> is_fail rep = true -> t' = t.
Proof.
  unfold process_request. intros H Hf.
  destruct (native_names root (req_name1 r)) as [p|]; [|discriminate].
  destruct (native_names root (req_name2 r)) as [p2|]; [|discriminate].
  destruct (process_keys t (req_action r) p p2) as [st t1] eqn:Hk.
  inversion H; subst. apply is_fail_iff in Hf. cbn [resp_status] in Hf.
  destruct (process_keys_spec _ _ _ _ _ _ Hk) as (_ & _ & H3). apply H3. exact Hf.
Qed.

Lemma process_request_echo root t r rep t' :
  process_request root t r = Some (rep, t') ->
  resp_action rep = req_action r /\ resp_name1 rep = req_name1 r /\ resp_name2 rep = req_name2 r.
Proof.
  unfold process_request. intros H.
  destruct (native_names root (req_name1 r)) as [p|]; [|discriminate].
  destruct (native_names root (req_name2 r)) as [p2|]; [|discriminate].
  destruct (process_keys t (req_action r) p p2) as [st t1].
  inversion H; subst. cbn. auto.
Qed.

(* ---------------------------------------------------------------- the loop *)
(* what the response list says about which request each response answers *)
Definition resp_key (rep : response) := (resp_action rep, resp_name1 rep, resp_name2 rep).
Definition req_key (r : request) := (req_action r, req_name1 r, req_name2 r).

Lemma exec_loop_in_order root reqs : forall b t out t',
  exec_loop root b t reqs = Some (out, t') -> map resp_key out = map req_key reqs.
Proof.
  induction reqs as [|r rest IH]; intros b t out t' H.
  - cbn in H. inversion H; subst. reflexivity.
  - cbn [exec_loop] in H. destruct b.
    + destruct (exec_loop root true t rest) as [[o t1]|] eqn:E; [|discriminate].
      inversion H; subst. cbn [map]. rewrite (IH _ _ _ _ E). reflexivity.
    + destruct (process_request root t r) as [[rep t1]|] eqn:Ep; [|discriminate].
      destruct (exec_loop root (is_fail rep) t1 rest) as [[o t2]|] eqn:E; [|discriminate].
      inversion H; subst. cbn [map]. rewrite (IH _ _ _ _ E).
      destruct (process_request_echo _ _ _ _ _ Ep) as (A1 & A2 & A3).
      unfold resp_key, req_key. rewrite A1, A2, A3. reflexivity.
Qed.

(* once a request has failed: everything else is NotPerformed and nothing changes *)
Lemma exec_loop_fail_rest root reqs t :
  exec_loop root true t reqs = Some (map not_performed reqs, t).
Proof.
  induction reqs as [|r rest IH]; [reflexivity|].
  cbn [exec_loop map]. rewrite IH. reflexivity.
Qed.

(* plain sequential execution of every request, without the fail-the-rest rule *)
Fixpoint seq_exec (root : list N) (t : tree) (reqs : list request) : option (list response * tree) :=
  match reqs with
  | [] => Some ([], t)
  | r :: rest =>
      match process_request root t r with
      | None => None
      | Some (rep, t1) =>
          match seq_exec root t1 rest with
          | Some (out, t2) => Some (rep :: out, t2)
          | None => None
          end
      end
  end.

Definition all_ok (out : list response) : Prop := Forall (fun rep => is_fail rep = false) out.

(* the prefix up to and including the first failure is executed, the rest is NotPerformed *)
Lemma exec_first_failure root pre : forall t r post outs t1 rep t2,
  seq_exec root t pre = Some (outs, t1) -> all_ok outs ->
  process_request root t1 r = Some (rep, t2) -> is_fail rep = true ->
  exec_requests root t (pre ++ r :: post) = Some (outs ++ rep :: map not_performed post, t1) /\ t2 = t1.
Proof.
  unfold exec_requests.
  induction pre as [|r0 pre' IH]; intros t r post outs t1 rep t2 Hs Hall Hp Hf.
  - cbn in Hs. inversion Hs; subst. cbn [app exec_loop]. rewrite Hp, Hf.
    rewrite exec_loop_fail_rest.
    pose proof (process_request_fail_unchanged _ _ _ _ _ Hp Hf) as E. subst t2.
    split; reflexivity.
  - cbn [seq_exec] in Hs.
    destruct (process_request root t r0) as [[rep0 ta]|] eqn:E0; [|discriminate].
    destruct (seq_exec root ta pre') as [[o tb]|] eqn:E1; [|discriminate].
    inversion Hs; subst. inversion Hall as [|x l Hx Hl]; subst.
    destruct (IH ta r post o t1 rep t2 E1 Hl Hp Hf) as [IH1 IH2].
    split; [|exact IH2].
    cbn [app exec_loop]. rewrite E0, Hx. rewrite IH1. reflexivity.
Qed.

(* without a failure every request is executed, in order *)
Lemma exec_no_failure root reqs : forall t outs t',
  seq_exec root t reqs = Some (outs, t') -> all_ok outs ->
  exec_requests root t reqs = Some (outs, t').
Proof.
  unfold exec_requests.
  induction reqs as [|r rest IH]; intros t outs t' Hs Hall.
  - cbn in Hs. inversion Hs; subst. reflexivity.
  - cbn [seq_exec] in Hs.
    destruct (process_request root t r) as [[rep ta]|] eqn:E0; [|discriminate].
    destruct (seq_exec root ta rest) as [[o tb]|] eqn:E1; [|discriminate].
    inversion Hs; subst. inversion Hall as [|x l Hx Hl]; subst.
    cbn [exec_loop]. rewrite E0, Hx. rewrite (IH _ _ _ E1 Hl). reflexivity.
Qed.

(* one of the two cases always applies *)
Lemma exec_cases root reqs : root_ok root -> forall t,
  (exists outs t', seq_exec root t reqs = Some (outs, t') /\ all_ok outs) \/
  (exists pre r post outs t1 rep t2,
      reqs = pre ++ r :: post /\ seq_exec root t pre = Some (outs, t1) /\ all_ok outs /\
      process_request root t1 r = Some (rep, t2) /\ is_fail rep = true).
Proof.
  intros Hok. induction reqs as [|r rest IH]; intros t.
  - left. exists [], t. split; [reflexivity | constructor].
  - destruct (process_request_spec root t r Hok) as (p & p2 & rep & t1 & _ & _ & Hp & _).
    destruct (is_fail rep) eqn:Hf.
    + right. exists [], r, rest, [], t, rep, t1. splits; try reflexivity; auto. constructor.
    + destruct (IH t1) as [(outs & t' & Hs & Hall) | (pre & r1 & post & outs & ta & rep1 & tb & He & Hs & Hall & Hp1 & Hf1)].
      * left. exists (rep :: outs), t'. split.
        -- cbn [seq_exec]. rewrite Hp, Hs. reflexivity.
        -- constructor; assumption.
      * right. exists (r :: pre), r1, post, (rep :: outs), ta, rep1, tb. splits; auto.
        -- rewrite He. reflexivity.
        -- cbn [seq_exec]. rewrite Hp, Hs. reflexivity.
        -- constructor; assumption.
Qed.

Lemma exec_total root reqs t : root_ok root -> exists out t', exec_requests root t reqs = Some (out, t').
Proof.
  intros Hok.
  destruct (exec_cases root reqs Hok t) as [(outs & t' & Hs & Hall) | (pre & r & post & outs & t1 & rep & t2 & He & Hs & Hall & Hp & Hf)].
  - exists outs, t'. apply exec_no_failure; assumption.
  - subst reqs. destruct (exec_first_failure root pre t r post outs t1 rep t2 Hs Hall Hp Hf) as [H _].
    eexists. eexists. exact H.
Qed.

(* ---------------------------------------------------------------- the tree stays a tree *)
(* every entry other than the root lies in a directory that exists *)
Definition wf (t : tree) : Prop :=
  forall q n, lookup t q = Some n -> q <> [] -> lookup t (removelast q) = Some Dir.

Lemma removelast_neq (A : Type) (q : list A) : q <> [] -> removelast q <> q.
Proof.
  intros Hne E. destruct q as [|a q']; [apply Hne; reflexivity|].
  pose proof (app_removelast_last a Hne) as H.
  rewrite E in H. apply (f_equal (@length _)) in H. rewrite app_length in H. cbn in H. lia.
Qed.

Lemma is_prefix_app p : forall a b, is_prefix p a = true -> is_prefix p (a ++ b) = true.
Proof.
  induction p as [|x p' IH]; intros a b H; [reflexivity|].
  destruct a as [|y a']; cbn [is_prefix] in H; [discriminate|].
  cbn [app is_prefix]. apply andb_true_iff in H as [H1 H2]. rewrite H1. cbn [andb]. apply IH. exact H2.
Qed.

Lemma is_prefix_removelast p q : q <> [] -> is_prefix p (removelast q) = true -> is_prefix p q = true.
Proof.
  intros Hne H. rewrite (app_removelast_last [] Hne). apply is_prefix_app. exact H.
Qed.

Lemma parent_is_dir_lookup t p : parent_is_dir t p = true -> p <> [] -> lookup t (removelast p) = Some Dir.
Proof.
  unfold parent_is_dir, is_dir. destruct p as [|x p']; [intros _ H; exfalso; apply H; reflexivity|].
  intros H _. destruct (lookup t (removelast (x :: p'))) as [[c|]|]; try discriminate. reflexivity.
Qed.

(* a location that is not a directory gets a (new) node *)
Lemma wf_update t t' p X : wf t ->
  (forall q, lookup t' q = if fpath_eqb p q then Some X else lookup t q) ->
  (p <> [] -> lookup t (removelast p) = Some Dir) -> lookup t p <> Some Dir -> wf t'.
Proof.
  intros Hwf Hl Hpar Hnd q n Hq Hne. rewrite Hl in Hq.
  assert (Hparent : lookup t (removelast q) = Some Dir).
  { destruct (fpath_eqb_spec p q) as [E|E].
    - subst q. apply Hpar. exact Hne.
    - apply (Hwf q n Hq Hne). }
  rewrite Hl. destruct (fpath_eqb_spec p (removelast q)) as [E|E]; [|exact Hparent].
  exfalso. apply Hnd. rewrite E. exact Hparent.
Qed.

(* a location that is not a directory is removed *)
Lemma wf_remove t t' p : wf t ->
  (forall q, lookup t' q = if fpath_eqb p q then None else lookup t q) ->
  lookup t p <> Some Dir -> wf t'.
Proof.
  intros Hwf Hl Hnd q n Hq Hne. rewrite Hl in Hq.
  destruct (fpath_eqb_spec p q) as [E|E]; [discriminate|].
  pose proof (Hwf q n Hq Hne) as Hparent.
  rewrite Hl. destruct (fpath_eqb_spec p (removelast q)) as [E2|E2]; [|exact Hparent].
  exfalso. apply Hnd. rewrite E2. exact Hparent.
Qed.

(* a whole subtree is removed *)
Lemma wf_remove_subtree t t' p : wf t ->
  (forall q, lookup t' q = if is_prefix p q then None else lookup t q) -> wf t'.
Proof.
  intros Hwf Hl q n Hq Hne. rewrite Hl in Hq.
  destruct (is_prefix p q) eqn:E; [discriminate|].
  pose proof (Hwf q n Hq Hne) as Hparent.
  rewrite Hl. destruct (is_prefix p (removelast q)) eqn:E2; [|exact Hparent].
  rewrite (is_prefix_removelast p q Hne E2) in E. discriminate.
Qed.

Lemma process_keys_wf t a p p2 st t' : wf t -> process_keys t a p p2 = (st, t') -> wf t'.
Proof.
  intros Hwf Hk. destruct (process_keys_spec _ _ _ _ _ _ Hk) as (Hst & Hok & Hfail).
  destruct (N.eq_dec st 0) as [E0|E0]; [|rewrite (Hfail E0); exact Hwf].
  specialize (Hok E0). rewrite E0 in Hst. clear Hfail Hk E0.
  destruct a; unfold spec_status in Hst; unfold spec_lookup in Hok.
  - (* create file *)
    destruct (lookup t p) as [n|] eqn:Hp; [discriminate|].
    destruct p as [|x p']; [discriminate|].
    destruct (parent_is_dir t (x :: p')) eqn:Hd; [|discriminate].
    apply (wf_update t t' (x :: p') (File []) Hwf Hok).
    + apply parent_is_dir_lookup. exact Hd.
    + rewrite Hp. discriminate.
  - (* delete file *)
    destruct (lookup t p) as [[c|]|] eqn:Hp; try discriminate.
    apply (wf_remove t t' p Hwf Hok). rewrite Hp. discriminate.
  - (* rename *)
    destruct (lookup t p) as [[c|]|] eqn:Hp; try discriminate.
    destruct (lookup t p2) as [[c2|]|] eqn:Hp2; try discriminate.
    destruct (parent_is_dir t p2) eqn:Hd; [|discriminate].
    assert (Hwf1 : wf (remove_key p t)).
    { apply (wf_remove t (remove_key p t) p Hwf); [apply lookup_remove_key|]. rewrite Hp. discriminate. }
    apply (wf_update (remove_key p t) t' p2 (File c) Hwf1).
    + intros q. rewrite Hok, lookup_remove_key. reflexivity.
    + intros Hne. rewrite lookup_remove_key.
      pose proof (parent_is_dir_lookup t p2 Hd Hne) as Hpar.
      destruct (fpath_eqb_spec p (removelast p2)) as [E|E]; [|exact Hpar].
      rewrite <- E, Hp in Hpar. discriminate.
    + rewrite lookup_remove_key. destruct (fpath_eqb p p2); [discriminate|]. rewrite Hp2. discriminate.
  - (* append *)
    destruct (lookup t p) as [[c|]|] eqn:Hp; try discriminate.
    apply (wf_update t t' p _ Hwf Hok).
    + intros Hne. apply (Hwf p (File c) Hp Hne).
    + rewrite Hp. discriminate.
  - (* replace *)
    destruct (lookup t p) as [[c|]|] eqn:Hp; try discriminate.
    apply (wf_update t t' p _ Hwf Hok).
    + intros Hne. apply (Hwf p (File c) Hp Hne).
    + rewrite Hp. discriminate.
  - (* create directory *)
    destruct (lookup t p) as [n|] eqn:Hp; [discriminate|].
    destruct (parent_is_dir t p) eqn:Hd; [|discriminate].
    apply (wf_update t t' p Dir Hwf Hok).
    + apply parent_is_dir_lookup. exact Hd.
    + rewrite Hp. discriminate.
  - (* remove directory *)
    apply (wf_remove_subtree t t' p Hwf Hok).
  - (* deny file *)
    destruct (lookup t p) as [[c|]|] eqn:Hp; try discriminate.
    apply (wf_remove t t' p Hwf Hok). rewrite Hp. discriminate.
  - (* deny directory *)
    apply (wf_remove_subtree t t' p Hwf Hok).
Qed.

Lemma process_request_wf root t r rep t' : wf t -> process_request root t r = Some (rep, t') -> wf t'.
Proof.
  unfold process_request. intros Hwf H.
  destruct (native_names root (req_name1 r)) as [p|]; [|discriminate].
  destruct (native_names root (req_name2 r)) as [p2|]; [|discriminate].
  destruct (process_keys t (req_action r) p p2) as [st t1] eqn:Hk.
  inversion H; subst. apply (process_keys_wf _ _ _ _ _ _ Hwf Hk).
Qed.

Lemma exec_loop_wf root reqs : forall b t out t', wf t -> exec_loop root b t reqs = Some (out, t') -> wf t'.
Proof.
  induction reqs as [|r rest IH]; intros b t out t' Hwf H.
  - cbn in H. inversion H; subst. exact Hwf.
  - cbn [exec_loop] in H. destruct b.
    + destruct (exec_loop root true t rest) as [[o t1]|] eqn:E; [|discriminate].
      inversion H; subst. apply (IH _ _ _ _ Hwf E).
    + destruct (process_request root t r) as [[rep t1]|] eqn:Ep; [|discriminate].
      destruct (exec_loop root (is_fail rep) t1 rest) as [[o t2]|] eqn:E; [|discriminate].
      inversion H; subst. apply (IH _ _ _ _ (process_request_wf _ _ _ _ _ Hwf Ep) E).
Qed.
