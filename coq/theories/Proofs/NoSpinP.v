(* C03, no spinning: after the timeout arm of a transaction's loop has run at time [now], the
   transaction has ended or is suspended, or has something to send, or its next deadline lies
   strictly in the future - it never comes back to the timeout arm at the same instant for ever. *)
From CFDP Require Import Base.Prelude Model.Segments Model.Timer Model.TxTypes Model.Recv Model.Send
  Proofs.TimerP Proofs.Tac Proofs.RecvP.

(* a counter that cannot fire at [now]: stopped, or its deadline is in the future *)
Definition armed (now : N) (c : counter) : Prop := c_paused c = true \/ now < c_start c + c_timeout c.

Lemma c_update_timeout now c : c_timeout (c_update now c) = c_timeout c.
Proof. unfold c_update. destruct (c_paused c); [reflexivity|]. destruct (_ =? 0); reflexivity. Qed.
Lemma c_restart_timeout now c : c_timeout (c_restart now c) = c_timeout c.
Proof. unfold c_restart. cbn. apply c_update_timeout. Qed.
Lemma c_reset_timeout now c : c_timeout (c_reset now c) = c_timeout c.
Proof. reflexivity. Qed.
Lemma c_pause_timeout now c : c_timeout (c_pause now c) = c_timeout c.
Proof. unfold c_pause. cbn. apply c_update_timeout. Qed.
Lemma c_startc_timeout c : c_timeout (c_startc c) = c_timeout c.
Proof. reflexivity. Qed.

Lemma c_update_armed now c : 0 < c_timeout c -> armed now (c_update now c).
Proof.
  intros Ht. unfold armed, c_update. destruct (c_paused c) eqn:Ep; [left; exact Ep|].
  pose proof (div_bounds (now - c_start c) (c_timeout c) Ht) as Hb.
  destruct (N.eqb_spec ((now - c_start c) / c_timeout c) 0) as [E|E].
  - right. rewrite E in Hb. lia.
  - right. cbn. lia.
Qed.
Lemma c_restart_armed now c : 0 < c_timeout c -> armed now (c_restart now c).
Proof. intros Ht. right. unfold c_restart. cbn. rewrite c_update_timeout. lia. Qed.
Lemma c_reset_armed now c : 0 < c_timeout c -> armed now (c_reset now c).
Proof. intros Ht. right. unfold c_reset. cbn. lia. Qed.
Lemma c_pause_armed now t c : armed now (c_pause t c).
Proof. left. reflexivity. Qed.
Lemma paused_armed now c : c_paused c = true -> armed now c.
Proof. intros H. left. exact H. Qed.

Lemma armed_until now c : armed now c -> c_paused c = false -> 0 < c_until now c.
Proof.
  intros [H|H] Hp; [congruence|]. unfold c_until. destruct (N.ltb_spec now (c_start c + c_timeout c)); lia.
Qed.

Lemma omin_pos a b : (forall x, a = Some x -> 0 < x) -> 0 < b -> forall x, omin a b = Some x -> 0 < x.
Proof. intros Ha Hb x. unfold omin. destruct a as [y|]; intros E; inversion E; subst; [specialize (Ha y eq_refl)|]; lia. Qed.

Lemma t_until_pos now t : armed now (t_inact t) -> armed now (t_ack t) -> armed now (t_nak t) ->
  forall x, t_until now t = Some x -> 0 < x.
Proof.
  intros Hi Ha Hn. unfold t_until.
  assert (H0 : forall x, @None N = Some x -> 0 < x) by (intros x E; discriminate).
  assert (H1 : forall x, (if c_paused (t_ack t) then None else omin None (c_until now (t_ack t))) = Some x -> 0 < x).
  { destruct (c_paused (t_ack t)) eqn:E; [exact H0|]. apply omin_pos; [exact H0|apply armed_until; assumption]. }
  set (m1 := if c_paused (t_ack t) then None else omin None (c_until now (t_ack t))) in *.
  assert (H2 : forall x, (if c_paused (t_nak t) then m1 else omin m1 (c_until now (t_nak t))) = Some x -> 0 < x).
  { destruct (c_paused (t_nak t)) eqn:E; [exact H1|]. apply omin_pos; [exact H1|apply armed_until; assumption]. }
  set (m2 := if c_paused (t_nak t) then m1 else omin m1 (c_until now (t_nak t))) in *.
  destruct (c_paused (t_inact t)) eqn:E; [exact H2|]. apply omin_pos; [exact H2|apply armed_until; assumption].
Qed.

Ltac tmo_refl :=
  cbn; repeat first [ rewrite c_restart_timeout | rewrite c_reset_timeout | rewrite c_pause_timeout
                     | rewrite c_update_timeout | rewrite c_startc_timeout ]; reflexivity.

Section RecvNoSpin.
Variable FS : Type.
Variable fs_write_file : FS -> bytes -> bytes -> option FS.
Variable fs_exec : FS -> fsreq -> FS * fsresp.
Variable resp_fail : fsresp -> bool.
Variable not_performed : fsreq -> fsresp.
Variable cksum : cktype -> bytes -> N.
Variable resp_len : fsresp -> N.
Variable req_len : fsreq -> N.

Notation rstate := (rstate FS).
Notation rstep := (rstep FS fs_write_file fs_exec resp_fail not_performed cksum resp_len req_len).
Notation process_pdu := (process_pdu FS fs_write_file fs_exec resp_fail not_performed cksum).
Notation check_finished := (check_finished FS fs_write_file fs_exec resp_fail not_performed cksum).
Notation finalize_receive := (finalize_receive FS fs_write_file fs_exec resp_fail not_performed cksum).

(* every timer of the transaction has a positive period (they never change) *)
Definition dpos (d : counter * N * N) : Prop := 0 < c_timeout (fst (fst d)) /\ c_paused (fst (fst d)) = false.
Definition TW (s : rstate) : Prop :=
  0 < c_timeout (t_inact (r_timer s)) /\ 0 < c_timeout (t_ack (r_timer s)) /\ 0 < c_timeout (t_nak (r_timer s)) /\
  Forall dpos (r_delayed s).

Lemma TW_ext (s s' : rstate) : TW s ->
  c_timeout (t_inact (r_timer s')) = c_timeout (t_inact (r_timer s)) ->
  c_timeout (t_ack (r_timer s')) = c_timeout (t_ack (r_timer s)) ->
  c_timeout (t_nak (r_timer s')) = c_timeout (t_nak (r_timer s)) ->
  r_delayed s' = r_delayed s -> TW s'.
Proof. unfold TW. intros (A & B & C & D) E1 E2 E3 E4. rewrite E1, E2, E3, E4. auto. Qed.

Ltac tw_leaf :=
  lazymatch goal with
  | |- TW ?t => let b := strip_r t in
      tryif constr_eq b t then fail else (eapply (TW_ext b); [ | tmo_refl | tmo_refl | tmo_refl | reflexivity ])
  end.

Lemma TW_cancel_ now s : TW s -> TW (cancel_ now s).
Proof. intros H. unfold cancel_. destruct (cfg_mode _); [|destruct (closure _)]; tw_leaf; exact H. Qed.
Lemma TW_suspend now s : TW s -> TW (suspend now s).
Proof. intros H. unfold suspend. tw_leaf. exact H. Qed.
Lemma TW_abandon now s : TW s -> TW (abandon now s).
Proof. intros H. unfold abandon. tw_leaf. exact H. Qed.
Lemma TW_handle_fault now c s : TW s -> TW (fst (handle_fault now c s)).
Proof.
  intros H. unfold handle_fault.
  assert (H1 : TW (emit_ind (IFault c (r_recvd (set_r_cond c s))) (set_r_cond c s))) by (tw_leaf; exact H).
  destruct (handler _ c); cbn [fst]; [apply TW_cancel_ | apply TW_suspend | | apply TW_abandon]; exact H1.
Qed.
Ltac tw :=
  lazymatch goal with
  | |- TW ?t =>
      first [ assumption
            | lazymatch goal with
              | |- TW (cancel_ _ _) => apply TW_cancel_
              | |- TW (suspend _ _) => apply TW_suspend
              | |- TW (abandon _ _) => apply TW_abandon
              | |- TW (fst (handle_fault _ _ _)) => apply TW_handle_fault
              end; tw
            | tw_leaf; tw ]
  end.
Ltac pass_tw := repeat (first [destr_pair_keep | destr_inner]; cbn [fst snd]); try tw.

Lemma TW_send_pdu now s : TW s -> TW (send_pdu resp_len req_len now s).
Proof.
  intros H. unfold Recv.send_pdu, answer_prompt, send_ack_eof, send_finished, send_naks, set_fin_flag, c_limit_reached.
  pass_tw.
Qed.
Lemma TW_resume now s : TW s -> TW (resume now s).
Proof. intros H. unfold resume. pass_tw. Qed.

Lemma expire_delayed_pos now l : Forall dpos l -> Forall dpos (snd (expire_delayed now l)).
Proof.
  induction l as [|[[c a] b] t IH]; intros H; cbn [expire_delayed]; [constructor|].
  inversion H as [|? ? Hc Ht]; subst. unfold c_timeout_occurred.
  destruct (c_occurred (c_update now c)).
  - destruct (expire_delayed now t) as [ex rest]. cbn [snd] in *. apply IH. exact Ht.
  - cbn [snd]. constructor; [|exact Ht]. unfold dpos in *. cbn [fst] in *. rewrite c_update_timeout, c_update_paused_eq. exact Hc.
Qed.

(* replacing the list of delay timers *)
Lemma TW_delayed (s : rstate) l : TW s -> Forall dpos l -> TW (set_r_delayed l s).
Proof. intros (A & B & C & D) H. unfold TW. cbn. auto. Qed.

Lemma TW_ht_delayed now s : TW s -> TW (ht_delayed now s).
Proof.
  intros H. unfold ht_delayed.
  pose proof (expire_delayed_pos now (r_delayed s) ltac:(destruct H as (_ & _ & _ & D); exact D)) as Hp.
  destruct (expire_delayed now (r_delayed s)) as [ex rest]. cbn [snd] in Hp.
  assert (H1 : TW (set_r_delayed rest s)) by (apply TW_delayed; assumption).
  destruct (is_nil ex); [exact H1|]. tw.
Qed.

Lemma TW_set_fin_flag b s : TW s -> TW (set_fin_flag b s).
Proof. intros H. unfold set_fin_flag. destruct (r_fin s) as [[f0 b0]|]; [tw|exact H]. Qed.

Lemma TW_handle_timeout now s : TW s -> TW (handle_timeout now s).
Proof.
  intros H. unfold handle_timeout.
  pose proof (TW_ht_delayed now s H) as H1.
  assert (H2 : TW (fst (ht_inactivity now (ht_delayed now s)))).
  { remember (ht_delayed now s) as s1 eqn:E; clear E. unfold ht_inactivity, c_limit_reached. pass_tw. }
  destruct (ht_inactivity now (ht_delayed now s)) as [s2 go]. cbn [fst] in H2.
  destruct go; [|exact H2].
  assert (H3 : TW (ht_nak now s2)) by (unfold ht_nak, c_timeout_occurred; pass_tw).
  unfold ht_phase. remember (ht_nak now s2) as s3 eqn:E3; clear E3.
  unfold ht_ackphase, c_limit_reached, c_timeout_occurred, set_fin_flag. pass_tw.
Qed.

Lemma TW_finalize now s : TW s -> TW (finalize_receive now s).
Proof.
  intros H. unfold Recv.finalize_receive.
  set (s0 := set_r_dc _ s). assert (H0 : TW s0) by (unfold s0; tw). clearbody s0. clear H.
  assert (H1 : TW (fst (if is_file_transfer s0
                        then let '(s1, go) := fr_verify FS cksum now s0 in
                             if go then (fr_store FS fs_write_file s1, true) else (s1, false)
                        else (set_r_fstat FUnreported s0, true)))).
  { destruct (is_file_transfer s0); cbn [fst]; [|tw].
    assert (Hv : TW (fst (fr_verify FS cksum now s0))) by (unfold fr_verify; destr_inner; cbn [fst]; tw).
    destruct (fr_verify FS cksum now s0) as [s1 go]. cbn [fst] in Hv.
    destruct go; cbn [fst]; [|exact Hv]. unfold fr_store. destr_inner; tw. }
  destruct (if is_file_transfer s0 then _ else _) as [s2 go2]. cbn [fst] in H1.
  destruct go2; [|exact H1].
  assert (H2 : TW (fst (fr_rejection now s2))).
  { unfold fr_rejection. destruct (r_fstat s2); cbn [fst]; try exact H1. tw. }
  destruct (fr_rejection now s2) as [s3 go3]. cbn [fst] in H2.
  destruct go3; [|exact H2]. unfold fr_requests. destruct (run_requests _ _ _ _ _ _ _). tw.
Qed.
Lemma TW_check_finished now s : TW s -> TW (check_finished now s).
Proof.
  intros H. unfold Recv.check_finished. destr_inner; [|exact H].
  pose proof (TW_finalize now s H) as H1. remember (finalize_receive now s) as s1 eqn:E; clear E. tw.
Qed.
Lemma TW_check_file_size now z s : TW s -> TW (check_file_size now z s).
Proof. intros H. unfold check_file_size. destr_inner; [tw|exact H]. Qed.
Lemma TW_store off d s : TW s -> TW (store_file_data off d s).
Proof. intros H. unfold store_file_data. destruct (is_nil d); [exact H|]. destruct (ins _ _ _). tw. Qed.
Lemma new_delay_pos now delay a b : delay =? 0 = false -> dpos (new_delay_counter now delay, a, b).
Proof. intros E. apply N.eqb_neq in E. unfold dpos, new_delay_counter. cbn [fst]. rewrite c_startc_timeout. unfold c_new. cbn. split; [lia|reflexivity]. Qed.

Lemma TW_process_pdu now p s : TW s -> TW (fst (process_pdu now p s)).
Proof.
  intros H. unfold Recv.process_pdu.
  set (s0 := if suspended s then s else upd_inact (c_reset now) s).
  assert (H0 : TW s0) by (unfold s0; destruct (suspended s); [exact H|tw]).
  clearbody s0. clear H.
  destruct (cfg_mode (r_cfg s0)); destruct p; cbn [fst]; try exact H0.
  - (* file data, acknowledged *)
    unfold pdu_filedata_acked. destr_inner; [exact H0|].
    pose proof (TW_store offset data s0 H0) as H1. remember (store_file_data offset data s0) as s1 eqn:E1; clear E1.
    apply TW_check_finished. unfold c_timeout_occurred.
    repeat (destr_inner; cbn [fst snd]); try tw.
    all: match goal with |- TW (set_r_delayed (r_delayed ?x ++ [(new_delay_counter ?n ?d, ?a, ?b)]) ?x) =>
      assert (Hx : TW x) by tw; apply TW_delayed; [exact Hx|];
      apply Forall_app; split; [destruct Hx as (_ & _ & _ & D); exact D|];
      constructor; [apply new_delay_pos; assumption|constructor] end.
  - (* EOF, acknowledged *)
    unfold pdu_eof_acked. destr_inner; [tw|].
    match goal with |- context [cond_eqb (r_cond ?x) NoError] => assert (H1 : TW x) by tw; remember x as s1 eqn:E1; clear E1 end.
    destr_inner; [|tw].
    pose proof (TW_check_file_size now (eof_size e) s1 H1) as H2.
    remember (check_file_size now (eof_size e) s1) as s2 eqn:E2; clear E2.
    assert (H3 : TW (check_finished now (set_r_fsize (Some (eof_size e)) s2))) by (apply TW_check_finished; tw).
    remember (check_finished now (set_r_fsize (Some (eof_size e)) s2)) as s4 eqn:E4; clear E4.
    destr_inner; [|exact H3]. destr_inner; [tw|].
    apply TW_delayed; [exact H3|]. apply Forall_app. split; [destruct H3 as (_ & _ & _ & D); exact D|].
    constructor; [apply new_delay_pos; assumption|constructor].
  - unfold pdu_ack_acked. repeat (destr_inner; cbn [fst snd]); try tw.
  - unfold pdu_metadata_acked, set_metadata. destr_inner; [exact H0|]. apply TW_check_finished. tw.
  - unfold pdu_filedata_unacked. destr_inner; [exact H0|].
    pose proof (TW_store offset data s0 H0) as H1. remember (store_file_data offset data s0) as s1 eqn:E1; clear E1. tw.
  - unfold pdu_eof_unacked. destr_inner; [exact H0|].
    match goal with |- context [cond_eqb (r_cond ?x) NoError] => assert (H1 : TW x) by tw; remember x as s1 eqn:E1; clear E1 end.
    destr_inner; [|tw].
    pose proof (TW_check_file_size now (eof_size e) s1 H1) as H2.
    remember (check_file_size now (eof_size e) s1) as s2 eqn:E2; clear E2.
    assert (H3 : TW (finalize_receive now (set_r_fsize (Some (eof_size e)) s2))) by (apply TW_finalize; tw).
    remember (finalize_receive now (set_r_fsize (Some (eof_size e)) s2)) as s4 eqn:E4; clear E4.
    repeat destr_inner; tw.
  - unfold pdu_ack_unacked. repeat (destr_inner; cbn [fst snd]); try tw.
  - unfold pdu_metadata_unacked, set_metadata. destr_inner; [exact H0|tw].
Qed.

Theorem TW_rstep now o s : TW s -> TW (fst (rstep now o s)).
Proof.
  intros H. unfold Recv.rstep.
  assert (H0 : TW (set_r_out [] s)) by tw.
  destruct o; cbn [fst].
  - apply TW_process_pdu; exact H0.
  - destruct (has_pdu_to_send _); [apply TW_send_pdu|]; exact H0.
  - destruct (until_timeout now _) as [[|?]|]; [apply TW_handle_timeout| |]; exact H0.
  - unfold cancel. tw.
  - tw.
  - apply TW_resume. exact H0.
  - unfold send_report. tw.
  - tw.
Qed.
Lemma TW_init now cfg np fs : 0 < cfg_t_inact cfg -> 0 < cfg_t_ack cfg -> 0 < cfg_t_nak cfg -> TW (r_new now cfg np fs).
Proof.
  intros A B C. unfold TW, r_new. cbn. rewrite c_restart_timeout. unfold c_new. cbn. splits; auto.
Qed.

(* ---- while data is being received the ACK timer is stopped ---- *)
Definition AP (s : rstate) : Prop := r_phase s = RecvData -> c_paused (t_ack (r_timer s)) = true.
Lemma AP_ext (s s' : rstate) : AP s -> r_phase s' = r_phase s -> t_ack (r_timer s') = t_ack (r_timer s) -> AP s'.
Proof. unfold AP. intros H E1 E2. rewrite E1, E2. exact H. Qed.
Lemma AP_fin (s' : rstate) : r_phase s' = RFinished -> AP s'.
Proof. unfold AP. intros E. rewrite E. discriminate. Qed.
Lemma AP_canc (s' : rstate) : r_phase s' = RCancelled -> AP s'.
Proof. unfold AP. intros E. rewrite E. discriminate. Qed.
Lemma AP_paused (s' : rstate) : c_paused (t_ack (r_timer s')) = true -> AP s'.
Proof. unfold AP. auto. Qed.
Lemma AP_late (s s' : rstate) : r_phase s' = r_phase s -> r_phase s <> RecvData -> AP s'.
Proof. unfold AP. intros E Hn Hp. rewrite E in Hp. contradiction. Qed.

Ltac ap_leaf :=
  lazymatch goal with
  | |- AP ?t => let b := strip_r t in
      first [ tryif constr_eq b t then fail else (eapply (AP_ext b); [ | reflexivity | reflexivity ])
            | apply AP_paused; reflexivity
            | apply AP_fin; reflexivity
            | apply AP_canc; reflexivity ]
  end.
Lemma AP_cancel_ now s : AP (cancel_ now s).
Proof. apply AP_canc. unfold cancel_. destruct (cfg_mode _); [|destruct (closure _)]; reflexivity. Qed.
Lemma AP_suspend now s : AP (suspend now s).
Proof. apply AP_paused. reflexivity. Qed.
Lemma AP_abandon now s : AP (abandon now s).
Proof. apply AP_paused. reflexivity. Qed.
Lemma AP_handle_fault now c s : AP s -> AP (fst (handle_fault now c s)).
Proof.
  intros H. unfold handle_fault.
  assert (H1 : AP (emit_ind (IFault c (r_recvd (set_r_cond c s))) (set_r_cond c s))) by (ap_leaf; exact H).
  destruct (handler _ c); cbn [fst]; [apply AP_cancel_ | apply AP_suspend | exact H1 | apply AP_abandon].
Qed.
Ltac ap :=
  lazymatch goal with
  | |- AP ?t =>
      first [ assumption
            | lazymatch goal with
              | |- AP (cancel_ _ _) => apply AP_cancel_
              | |- AP (suspend _ _) => apply AP_suspend
              | |- AP (abandon _ _) => apply AP_abandon
              | |- AP (fst (handle_fault _ _ _)) => apply AP_handle_fault; ap
              end
            | ap_leaf; try ap ]
  end.
Ltac pass_ap := repeat (first [destr_pair_keep | destr_inner]; cbn [fst snd]); try ap.

Lemma AP_send_pdu now s : AP s -> AP (send_pdu resp_len req_len now s).
Proof.
  intros H. unfold Recv.send_pdu.
  assert (H1 : AP (answer_prompt resp_len req_len now s)).
  { unfold answer_prompt, send_naks, c_limit_reached. pass_ap. }
  assert (H2 : AP (send_ack_eof resp_len req_len s)) by (unfold send_ack_eof; pass_ap).
  assert (H3 : AP (send_naks resp_len req_len now s)) by (unfold send_naks, c_limit_reached; pass_ap).
  destruct (is_some (r_prompt s)); [exact H1|].
  destruct (r_phase s) eqn:Ep; repeat destr_inner; auto.
  all: unfold send_finished, set_fin_flag; repeat (destr_inner; cbn [fst snd]);
       (eapply (AP_late s); [reflexivity|congruence]).
Qed.
Lemma AP_resume now s : AP s -> AP (resume now s).
Proof.
  intros H. unfold resume. destruct (r_phase s) eqn:Ep.
  - change (r_phase (upd_inact (c_reset now) s)) with (r_phase s). rewrite Ep. repeat destr_inner; ap.
  - change (r_phase (upd_inact (c_reset now) s)) with (r_phase s). rewrite Ep. eapply (AP_late s); [reflexivity|congruence].
  - change (r_phase (upd_inact (c_reset now) s)) with (r_phase s). rewrite Ep. eapply (AP_late s); [reflexivity|congruence].
Qed.
Lemma AP_ht_delayed now s : AP s -> AP (ht_delayed now s).
Proof. intros H. unfold ht_delayed. destruct (expire_delayed now (r_delayed s)). destruct (is_nil _); ap. Qed.
Lemma AP_ht_nak now s : AP s -> AP (ht_nak now s).
Proof. intros H. unfold ht_nak, c_timeout_occurred. pass_ap. Qed.
Lemma AP_ht_ackphase now s : AP s -> AP (ht_ackphase now s).
Proof.
  intros H. unfold ht_ackphase. destruct (r_phase s) eqn:Ep; [exact H| |]; unfold c_limit_reached; cbn [fst snd];
    set (s1 := upd_ack (fun _ => c_update now (t_ack (r_timer s))) s);
    assert (H1 : AP s1) by (eapply (AP_late s); [reflexivity|congruence]);
    (destruct (_ =? _); [first [apply AP_handle_fault; exact H1|apply AP_abandon]|]);
    (destruct (c_occurred _); [|exact H1]);
    unfold set_fin_flag; destruct (r_fin s1) as [[f0 b0]|]; (eapply (AP_late s); [reflexivity|congruence]).
Qed.
Lemma AP_handle_timeout now s : AP s -> AP (handle_timeout now s).
Proof.
  intros H. unfold handle_timeout.
  pose proof (AP_ht_delayed now s H) as H1.
  assert (H2 : AP (fst (ht_inactivity now (ht_delayed now s)))).
  { remember (ht_delayed now s) as s1 eqn:E; clear E. unfold ht_inactivity, c_limit_reached. pass_ap. }
  destruct (ht_inactivity now (ht_delayed now s)) as [s2 go]. cbn [fst] in H2.
  destruct go; [|exact H2]. unfold ht_phase. apply AP_ht_ackphase. apply AP_ht_nak. exact H2.
Qed.
Lemma AP_check_finished now s : AP (check_finished now s) \/ check_finished now s = s.
Proof.
  unfold Recv.check_finished. destr_inner; [left|right; reflexivity]. apply AP_fin. reflexivity.
Qed.
Lemma AP_check_finished' now s : AP s -> AP (check_finished now s).
Proof. intros H. destruct (AP_check_finished now s) as [A|A]; [exact A|rewrite A; exact H]. Qed.
Lemma AP_store off d s : AP s -> AP (store_file_data off d s).
Proof. intros H. unfold store_file_data. destruct (is_nil d); [exact H|]. destruct (ins _ _ _). ap. Qed.
Lemma AP_finalize now s : AP s -> AP (finalize_receive now s).
Proof.
  intros H. unfold Recv.finalize_receive.
  set (s0 := set_r_dc _ s). assert (H0 : AP s0) by (unfold s0; ap). clearbody s0. clear H.
  assert (H1 : AP (fst (if is_file_transfer s0
                        then let '(s1, go) := fr_verify FS cksum now s0 in
                             if go then (fr_store FS fs_write_file s1, true) else (s1, false)
                        else (set_r_fstat FUnreported s0, true)))).
  { destruct (is_file_transfer s0); cbn [fst]; [|ap].
    assert (Hv : AP (fst (fr_verify FS cksum now s0))) by (unfold fr_verify; destr_inner; cbn [fst]; ap).
    destruct (fr_verify FS cksum now s0) as [s1 go]. cbn [fst] in Hv.
    destruct go; cbn [fst]; [|exact Hv]. unfold fr_store. destr_inner; ap. }
  destruct (if is_file_transfer s0 then _ else _) as [s2 go2]. cbn [fst] in H1.
  destruct go2; [|exact H1].
  assert (H2 : AP (fst (fr_rejection now s2))).
  { unfold fr_rejection. destruct (r_fstat s2); cbn [fst]; try exact H1. ap. }
  destruct (fr_rejection now s2) as [s3 go3]. cbn [fst] in H2.
  destruct go3; [|exact H2]. unfold fr_requests. destruct (run_requests _ _ _ _ _ _ _). ap.
Qed.
Lemma AP_process_pdu now p s : AP s -> AP (fst (process_pdu now p s)).
Proof.
  intros H. unfold Recv.process_pdu.
  set (s0 := if suspended s then s else upd_inact (c_reset now) s).
  assert (H0 : AP s0) by (unfold s0; destruct (suspended s); [exact H|ap]).
  clearbody s0. clear H.
  destruct (cfg_mode (r_cfg s0)); destruct p; cbn [fst]; try exact H0.
  - unfold pdu_filedata_acked. destr_inner; [exact H0|].
    pose proof (AP_store offset data s0 H0) as H1. remember (store_file_data offset data s0) as s1 eqn:E1; clear E1.
    apply AP_check_finished'. unfold c_timeout_occurred. repeat (destr_inner; cbn [fst snd]); ap.
  - unfold pdu_eof_acked. destr_inner; [ap|].
    match goal with |- context [cond_eqb (r_cond ?x) NoError] => assert (H1 : AP x) by ap; remember x as s1 eqn:E1; clear E1 end.
    destr_inner; [|ap].
    assert (H2 : AP (check_file_size now (eof_size e) s1)) by (unfold check_file_size; destr_inner; ap).
    remember (check_file_size now (eof_size e) s1) as s2 eqn:E2; clear E2.
    assert (H3 : AP (check_finished now (set_r_fsize (Some (eof_size e)) s2))) by (apply AP_check_finished'; ap).
    remember (check_finished now (set_r_fsize (Some (eof_size e)) s2)) as s4 eqn:E4; clear E4.
    repeat destr_inner; ap.
  - unfold pdu_ack_acked. repeat (destr_inner; cbn [fst snd]); ap.
  - unfold pdu_metadata_acked, set_metadata. destr_inner; [exact H0|]. apply AP_check_finished'. ap.
  - unfold pdu_filedata_unacked. destr_inner; [exact H0|].
    pose proof (AP_store offset data s0 H0) as H1. remember (store_file_data offset data s0) as s1 eqn:E1; clear E1. ap.
  - unfold pdu_eof_unacked. destr_inner; [exact H0|].
    match goal with |- context [cond_eqb (r_cond ?x) NoError] => assert (H1 : AP x) by ap; remember x as s1 eqn:E1; clear E1 end.
    destr_inner; [|ap].
    assert (H2 : AP (check_file_size now (eof_size e) s1)) by (unfold check_file_size; destr_inner; ap).
    remember (check_file_size now (eof_size e) s1) as s2 eqn:E2; clear E2.
    assert (H3 : AP (finalize_receive now (set_r_fsize (Some (eof_size e)) s2))) by (apply AP_finalize; ap).
    remember (finalize_receive now (set_r_fsize (Some (eof_size e)) s2)) as s4 eqn:E4; clear E4.
    repeat destr_inner; ap.
  - unfold pdu_ack_unacked. repeat (destr_inner; cbn [fst snd]); ap.
  - unfold pdu_metadata_unacked, set_metadata. destr_inner; [exact H0|ap].
Qed.
Theorem AP_rstep now o s : AP s -> AP (fst (rstep now o s)).
Proof.
  intros H. unfold Recv.rstep.
  assert (H0 : AP (set_r_out [] s)) by ap.
  destruct o; cbn [fst].
  - apply AP_process_pdu; exact H0.
  - destruct (has_pdu_to_send _); [apply AP_send_pdu|]; exact H0.
  - destruct (until_timeout now _) as [[|?]|]; [apply AP_handle_timeout| |]; exact H0.
  - unfold cancel. ap.
  - ap.
  - apply AP_resume. exact H0.
  - unfold send_report. ap.
  - ap.
Qed.
Lemma AP_init now cfg np fs : AP (r_new now cfg np fs).
Proof. apply AP_paused. reflexivity. Qed.

(* ---- the timeout arm makes progress ---- *)
Definition head_armed (now : N) (l : list (counter * N * N)) : Prop :=
  match l with [] => True | (c, _, _) :: _ => now < c_start c + c_timeout c end.
Definition TWt (s : rstate) : Prop :=
  0 < c_timeout (t_inact (r_timer s)) /\ 0 < c_timeout (t_ack (r_timer s)) /\ 0 < c_timeout (t_nak (r_timer s)).
Definition ARM (now : N) (s : rstate) : Prop :=
  armed now (t_inact (r_timer s)) /\ armed now (t_ack (r_timer s)) /\ armed now (t_nak (r_timer s)) /\
  head_armed now (r_delayed s).
(* after the timeout arm: ended or suspended, or something to send, or every deadline in the future *)
Definition QA (now : N) (s : rstate) : Prop :=
  r_state s <> TActive \/ has_pdu_to_send s = true \/ ARM now s.

Lemma ARM_until now s : ARM now s -> forall x, until_timeout now s = Some x -> 0 < x.
Proof.
  intros (A & B & C & D) x. unfold until_timeout. destruct (suspended s); [discriminate|].
  pose proof (t_until_pos now (r_timer s) A B C) as Ht.
  destruct (r_delayed s) as [|[[c a] b] t]; [apply Ht|].
  apply omin_pos; [exact Ht|]. cbn in D. unfold c_until. destruct (N.ltb_spec now (c_start c + c_timeout c)); lia.
Qed.

Lemma expire_head now l : Forall dpos l -> head_armed now (snd (expire_delayed now l)).
Proof.
  induction l as [|[[c a] b] t IH]; intros H; cbn [expire_delayed]; [exact I|].
  inversion H as [|? ? (Hc & Hp) Ht]; subst. cbn [fst] in Hc, Hp. unfold c_timeout_occurred.
  destruct (c_occurred (c_update now c)).
  - destruct (expire_delayed now t) as [ex rest]. cbn [snd] in *. apply IH. exact Ht.
  - cbn [snd head_armed]. destruct (c_update_armed now c Hc) as [A|A]; [|exact A].
    rewrite c_update_paused_eq in A. congruence.
Qed.

Lemma QA_cancel_ now s : QA now (cancel_ now s).
Proof.
  unfold QA, cancel_. destruct (cfg_mode (r_cfg (upd_nak (c_pause now) (set_r_phase RCancelled s)))) eqn:Em.
  - destruct (tstate_eqb (r_state s) TActive) eqn:Es.
    + right. left. unfold has_pdu_to_send, suspended. cbn. destruct (r_state s); try discriminate. reflexivity.
    + left. cbn. intros E. rewrite E in Es. discriminate.
  - left. destruct (closure _); cbn; discriminate.
Qed.
Lemma QA_suspend now s : QA now (suspend now s).
Proof. left. cbn. discriminate. Qed.
Lemma QA_abandon now s : QA now (abandon now s).
Proof. left. cbn. discriminate. Qed.
(* a fault either ends / suspends / cancels the transaction, or (handler Ignore) changes no timer *)
Lemma handle_fault_cases now c s :
  let '(s', go) := handle_fault now c s in
  (go = false -> QA now s') /\
  (go = true -> r_timer s' = r_timer s /\ r_delayed s' = r_delayed s /\ r_phase s' = r_phase s).
Proof.
  unfold handle_fault. destruct (handler _ c); (split; intros E; try discriminate).
  - apply QA_cancel_.
  - apply QA_suspend.
  - cbn. auto.
  - apply QA_abandon.
Qed.

Lemma ARM_ext now (s s' : rstate) : ARM now s -> r_timer s' = r_timer s -> r_delayed s' = r_delayed s -> ARM now s'.
Proof. unfold ARM. intros H E1 E2. rewrite E1, E2. exact H. Qed.

(* C03 (receiver): the timeout arm never leaves the loop spinning *)
Theorem recv_no_spin now s : TW s -> AP s -> QA now (handle_timeout now s).
Proof.
  intros (T1 & T2 & T3 & TD) HA. unfold handle_timeout.
  (* part 1: delay timers *)
  assert (S1 : r_timer (ht_delayed now s) = r_timer s /\ r_phase (ht_delayed now s) = r_phase s /\
               head_armed now (r_delayed (ht_delayed now s))).
  { unfold ht_delayed. pose proof (expire_head now (r_delayed s) TD) as Hh.
    destruct (expire_delayed now (r_delayed s)) as [ex rest]. cbn [snd] in Hh.
    destruct (is_nil ex); cbn; auto. }
  destruct S1 as (E1 & P1 & D1). remember (ht_delayed now s) as s1 eqn:Es1. clear Es1.
  assert (A1 : AP s1) by (unfold AP in *; rewrite P1, E1; exact HA).
  (* part 2: inactivity *)
  unfold ht_inactivity, c_limit_reached. cbn [fst snd].
  set (ci := c_update now (t_inact (r_timer s1))).
  assert (Hci : armed now ci) by (unfold ci; apply c_update_armed; rewrite E1; exact T1).
  set (s1' := upd_inact (fun _ => ci) s1).
  assert (S2 : forall s2 : rstate, r_timer s2 = set_inact (r_timer s1) (t_inact (r_timer s2)) -> armed now (t_inact (r_timer s2)) ->
               r_delayed s2 = r_delayed s1 -> r_phase s2 = r_phase s1 -> QA now (ht_phase now s2)).
  { (* parts 3 and 4, from a state whose inactivity timer cannot fire now *)
    intros s2 Et Hi Ed Ep. unfold ht_phase.
    (* NAK timer *)
    assert (S3 : r_timer (ht_nak now s2) = set_nak (r_timer s2) (t_nak (r_timer (ht_nak now s2))) /\
                 armed now (t_nak (r_timer (ht_nak now s2))) /\ r_delayed (ht_nak now s2) = r_delayed s2 /\
                 r_phase (ht_nak now s2) = r_phase s2).
    { unfold ht_nak, c_timeout_occurred.
      assert (Hn : armed now (c_update now (t_nak (r_timer s2)))).
      { apply c_update_armed. rewrite Et. cbn. rewrite E1. exact T3. }
      repeat (destr_inner; cbn [fst snd]); cbn; splits; auto; try reflexivity;
        left; reflexivity. }
    destruct S3 as (Et3 & Hn3 & Ed3 & Ep3). remember (ht_nak now s2) as s3 eqn:Es3. clear Es3.
    assert (Hi3 : armed now (t_inact (r_timer s3))) by (rewrite Et3; cbn; exact Hi).
    assert (Hd3 : head_armed now (r_delayed s3)) by (rewrite Ed3, Ed; exact D1).
    assert (Tack : 0 < c_timeout (t_ack (r_timer s3))).
    { rewrite Et3. cbn. rewrite Et. cbn. rewrite E1. exact T2. }
    (* ACK timer *)
    unfold ht_ackphase. destruct (r_phase s3) eqn:Ep3'.
    - right. right. unfold ARM. splits; auto. apply paused_armed.
      assert (Hp : r_phase s1 = RecvData) by congruence. specialize (A1 Hp).
      rewrite Et3. cbn. rewrite Et. cbn. exact A1.
    - unfold c_limit_reached. cbn [fst snd].
      set (ca := c_update now (t_ack (r_timer s3))). assert (Hca : armed now ca) by (apply c_update_armed; exact Tack).
      set (s3' := upd_ack (fun _ => ca) s3).
      assert (HARM : forall s4 : rstate, r_timer s4 = set_ack (r_timer s3) (t_ack (r_timer s4)) -> armed now (t_ack (r_timer s4)) ->
                       r_delayed s4 = r_delayed s3 -> ARM now s4).
      { intros s4 E4 H4 D4. unfold ARM. rewrite D4. splits; auto; rewrite E4; cbn; assumption. }
      destruct (c_count ca =? c_max ca).
      + pose proof (handle_fault_cases now PositiveLimitReached s3') as Hc.
        destruct (handle_fault now PositiveLimitReached s3') as [s4 go]. destruct Hc as (C1 & C2). cbn [fst].
        destruct go; [|apply C1; reflexivity]. destruct (C2 eq_refl) as (X1 & X2 & _).
        right. right. apply HARM; [rewrite X1; reflexivity|rewrite X1; exact Hca|rewrite X2; reflexivity].
      + destruct (c_occurred ca).
        * right. right. unfold set_fin_flag. destruct (r_fin s3') as [[f0 b0]|];
            (apply HARM; [reflexivity|cbn; apply c_restart_armed; unfold ca; rewrite c_update_timeout; exact Tack|reflexivity]).
        * right. right. apply HARM; [reflexivity|exact Hca|reflexivity].
    - unfold c_limit_reached. cbn [fst snd].
      set (ca := c_update now (t_ack (r_timer s3))). assert (Hca : armed now ca) by (apply c_update_armed; exact Tack).
      set (s3' := upd_ack (fun _ => ca) s3).
      assert (HARM : forall s4 : rstate, r_timer s4 = set_ack (r_timer s3) (t_ack (r_timer s4)) -> armed now (t_ack (r_timer s4)) ->
                       r_delayed s4 = r_delayed s3 -> ARM now s4).
      { intros s4 E4 H4 D4. unfold ARM. rewrite D4. splits; auto; rewrite E4; cbn; assumption. }
      destruct (c_count ca =? c_max ca); [apply QA_abandon|].
      destruct (c_occurred ca).
      * right. right. unfold set_fin_flag. destruct (r_fin s3') as [[f0 b0]|];
          (apply HARM; [reflexivity|cbn; apply c_restart_armed; unfold ca; rewrite c_update_timeout; exact Tack|reflexivity]).
      * right. right. apply HARM; [reflexivity|exact Hca|reflexivity]. }
  destruct (c_count ci =? c_max ci).
  - destruct (rphase_eqb (r_phase s1') RCancelled); [apply QA_abandon|].
    pose proof (handle_fault_cases now InactivityDetected s1') as Hc.
    destruct (handle_fault now InactivityDetected s1') as [s2 go]. destruct Hc as (C1 & C2).
    destruct go; [|apply C1; reflexivity]. destruct (C2 eq_refl) as (X1 & X2 & X3).
    apply S2; [rewrite X1; reflexivity|rewrite X1; exact Hci|rewrite X2; reflexivity|rewrite X3; reflexivity].
  - destruct (c_occurred ci).
    + apply S2; [reflexivity| |reflexivity|reflexivity].
      cbn. apply c_restart_armed. unfold ci. rewrite c_update_timeout, E1. exact T1.
    + apply S2; [reflexivity|exact Hci|reflexivity|reflexivity].
Qed.

(* consequence for the loop: if the timeout arm is due again at the same instant, the transaction
   has something to send (the send arm drains a finite queue), or it is no longer active *)
Corollary recv_timeout_progress now s : TW s -> AP s ->
  let s' := handle_timeout now s in
  r_state s' = TActive -> has_pdu_to_send s' = false -> forall x, until_timeout now s' = Some x -> 0 < x.
Proof.
  intros HT HA s' Hs Hp. destruct (recv_no_spin now s HT HA) as [H|[H|H]]; [contradiction|fold s' in H; congruence|].
  apply ARM_until. exact H.
Qed.

End RecvNoSpin.

Section SendNoSpin.
Variable cksum : cktype -> bytes -> N.
Variable resp_len : fsresp -> N.
Variable req_len : fsreq -> N.
Notation sstep := (sstep cksum resp_len req_len).
Notation s_send_pdu := (s_send_pdu cksum resp_len req_len).
Notation s_handle_timeout := (s_handle_timeout cksum).
Notation s_handle_fault := (s_handle_fault cksum).
Notation s_cancel_ := (s_cancel_ cksum).
Notation s_cancel := (s_cancel cksum).
Notation prepare_eof := (prepare_eof cksum).
Notation send_missing_data := (send_missing_data resp_len req_len).
Notation send_file_segment := (send_file_segment resp_len req_len).
Notation send_metadata := (send_metadata resp_len req_len).
Notation send_eof := (send_eof resp_len req_len).
Notation send_prompt := (send_prompt resp_len req_len).
Notation send_ack := (send_ack resp_len req_len).
Notation semit_pdu := (semit_pdu resp_len req_len).

(* the sender's inactivity and ACK timers have positive periods; its NAK timer never runs *)
Definition ST (s : sstate) : Prop :=
  0 < c_timeout (t_inact (s_timer s)) /\ 0 < c_timeout (t_ack (s_timer s)) /\ c_paused (t_nak (s_timer s)) = true.
Lemma ST_ext (s s' : sstate) : ST s ->
  c_timeout (t_inact (s_timer s')) = c_timeout (t_inact (s_timer s)) ->
  c_timeout (t_ack (s_timer s')) = c_timeout (t_ack (s_timer s)) ->
  t_nak (s_timer s') = t_nak (s_timer s) -> ST s'.
Proof. unfold ST. intros (A & B & C) E1 E2 E3. rewrite E1, E2, E3. auto. Qed.
Ltac st_leaf :=
  lazymatch goal with
  | |- ST ?t => let b := strip_s t in eapply (ST_ext b); [ | tmo_refl | tmo_refl | reflexivity ]
  end.
Lemma ST_shutdown now s : ST s -> ST (s_shutdown now s).
Proof. intros H. unfold s_shutdown. st_leaf. exact H. Qed.
Lemma ST_abandon now s : ST s -> ST (s_abandon now s).
Proof. intros H. unfold s_abandon. apply ST_shutdown. st_leaf. exact H. Qed.
Lemma ST_suspend now s : ST s -> ST (s_suspend now s).
Proof. intros H. unfold s_suspend. st_leaf. exact H. Qed.
Lemma ST_set_eof_flag b s : ST s -> ST (set_eof_flag b s).
Proof. intros H. unfold set_eof_flag. destruct (s_eof s) as [[e f]|]; [st_leaf|]; exact H. Qed.
Lemma ST_prepare_eof fl s : ST s -> ST (prepare_eof fl s).
Proof.
  intros H. unfold Send.prepare_eof, Send.get_checksum.
  destruct (s_cksum s); cbn [fst snd]; [st_leaf; exact H|].
  destruct (s_is_file_transfer s); cbn [fst snd]; [|st_leaf; exact H].
  destruct (md_ck (s_meta s)); st_leaf; exact H.
Qed.
Lemma ST_cancel_ now c s : ST s -> ST (s_cancel_ now c s).
Proof.
  intros H. unfold Send.s_cancel_. apply ST_prepare_eof.
  st_leaf; exact H.
Qed.
Lemma ST_handle_fault now c s : ST s -> ST (s_handle_fault now c s).
Proof.
  intros H. unfold Send.s_handle_fault.
  assert (H1 : ST (semit_ind (IFault c (s_sent (set_s_cond c s))) (set_s_cond c s))) by (st_leaf; exact H).
  destruct (handler _ c); [apply ST_cancel_ | apply ST_suspend | | apply ST_abandon]; exact H1.
Qed.
Lemma ST_ht_ack_eof now s : ST s -> ST (ht_ack_eof cksum now s).
Proof.
  intros H. unfold ht_ack_eof, c_timeout_occurred. cbn [fst snd].
  set (s3 := supd_ack (fun _ => c_update now (t_ack (s_timer s))) s).
  assert (H3 : ST s3) by (unfold s3; st_leaf; exact H). clearbody s3.
  destruct (c_occurred (c_update now (t_ack (s_timer s)))); [|exact H3].
  destruct (c_count (c_update now (t_ack (s_timer s))) =? c_max (c_update now (t_ack (s_timer s))));
    [apply ST_handle_fault | apply ST_set_eof_flag]; exact H3.
Qed.
Lemma ST_handle_timeout now s : ST s -> ST (s_handle_timeout now s).
Proof.
  intros H. unfold Send.s_handle_timeout, c_limit_reached.
  destruct (s_phase s) eqn:Ep; try exact H; cbn [fst snd].
  - set (s1 := supd_inact (fun _ => c_update now (t_inact (s_timer s))) s).
    assert (H1 : ST s1) by (unfold s1; st_leaf; exact H). clearbody s1.
    destruct (c_count (c_update now (t_inact (s_timer s))) =? c_max (c_update now (t_inact (s_timer s)))); cbn [andb].
    + pose proof (ST_handle_fault now InactivityDetected s1 H1) as H2.
      destruct (negb (sphase_eqb (s_phase (s_handle_fault now InactivityDetected s1)) SendEof)
                || negb (tstate_eqb (s_state (s_handle_fault now InactivityDetected s1)) TActive));
        [exact H2|apply ST_ht_ack_eof; exact H2].
    + apply ST_ht_ack_eof; exact H1.
  - set (s1 := supd_inact (fun _ => c_update now (t_inact (s_timer s))) s).
    assert (H1 : ST s1) by (unfold s1; st_leaf; exact H). clearbody s1.
    destruct (c_count (c_update now (t_inact (s_timer s))) =? c_max (c_update now (t_inact (s_timer s))));
      [apply ST_abandon; exact H1|].
    unfold c_timeout_occurred. cbn [fst snd].
    set (s3 := supd_ack (fun _ => c_update now (t_ack (s_timer s1))) s1).
    assert (H3 : ST s3) by (unfold s3; st_leaf; exact H1). clearbody s3.
    destruct (c_occurred (c_update now (t_ack (s_timer s1)))); [|exact H3].
    destruct (c_count (c_update now (t_ack (s_timer s1))) =? c_max (c_update now (t_ack (s_timer s1))));
      [apply ST_abandon | apply ST_set_eof_flag]; exact H3.
Qed.
Lemma ST_process_pdu now p s : ST s -> ST (fst (s_process_pdu now p s)).
Proof.
  intros H. unfold Send.s_process_pdu.
  set (s0 := if sphase_eqb (s_phase s) SendEof && negb (ssuspended s) then supd_inact (c_reset now) s else s).
  assert (H0 : ST s0) by (unfold s0; destruct (_ && _); [st_leaf|]; exact H). clearbody s0. clear H.
  destruct (cfg_mode (s_cfg s0)); destruct p; cbn [fst]; try exact H0; try (st_leaf; exact H0).
  - destruct (ack_dir a); cbn [fst]; [st_leaf|..]; exact H0.
  - destruct (md_closure (s_meta s0)); cbn [fst]; [|exact H0]. apply ST_shutdown. st_leaf. exact H0.
Qed.
Lemma ST_send_missing_data now s : ST s -> ST (fst (send_missing_data now s)).
Proof.
  intros H. unfold Send.send_missing_data. destruct (s_naks s) as [|[a b] t]; [exact H|].
  destruct (65535 <? b - a); cbn [fst]; [st_leaf; exact H|].
  destruct ((a =? 0) && (b - a =? 0)); cbn [fst]; unfold Send.send_metadata, Send.send_file_segment; st_leaf; exact H.
Qed.
Lemma ST_send_pdu now s : ST s -> ST (fst (s_send_pdu now s)).
Proof.
  intros H. unfold Send.s_send_pdu.
  destruct (is_some (s_prompt s)); cbn [fst].
  { unfold Send.send_prompt. destruct (s_prompt s); [st_leaf|]; exact H. }
  destruct (s_phase s) eqn:Ep.
  - unfold Send.send_metadata. destruct (_ && _); cbn [fst].
    + st_leaf; exact H.
    + unfold enter_send_eof. eapply (ST_ext (prepare_eof None (semit_pdu (PMetadata (s_meta s)) s)));
        [apply ST_prepare_eof; st_leaf; exact H | tmo_refl | tmo_refl | reflexivity].
  - assert (H1 : ST (fst (if negb (is_nil (s_naks s)) then send_missing_data now s
                               else (send_file_segment (s_pos s) (cfg_seg (s_cfg s)) s, ROk)))).
    { destruct (negb _); [apply ST_send_missing_data; exact H|]. cbn [fst]. unfold Send.send_file_segment. st_leaf. exact H. }
    destruct (if negb (is_nil (s_naks s)) then _ else _) as [s1 r]. cbn [fst] in H1.
    destruct r; cbn [fst]; try exact H1.
    destruct (_ =? _); cbn [fst]; [|exact H1].
    unfold enter_send_eof. eapply (ST_ext (prepare_eof None s1)); [apply ST_prepare_eof; exact H1 | tmo_refl | tmo_refl | reflexivity].
  - destruct (negb _); [apply ST_send_missing_data; exact H|].
    assert (H1 : ST (send_eof now s)).
    { unfold Send.send_eof. destruct (s_eof s) as [[e [|]]|]; try exact H. apply ST_set_eof_flag. st_leaf. exact H. }
    set (s1 := send_eof now s) in *. clearbody s1.
    assert (H2 : ST (if s_eof_ind s1 then set_s_eof_ind false (semit_ind IEoFSent s1) else s1)).
    { destruct (s_eof_ind s1); [st_leaf|]; exact H1. }
    remember (if s_eof_ind s1 then _ else s1) as s2 eqn:E2. clear E2 H1.
    destruct (cfg_mode (s_cfg s2)); cbn [fst]; [exact H2|].
    destruct (md_closure (s_meta s2)); cbn [fst]; [exact H2|].
    apply ST_shutdown. st_leaf. exact H2.
  - cbn [fst]. unfold Send.send_eof. destruct (s_eof s) as [[e [|]]|]; try exact H. apply ST_set_eof_flag. st_leaf. exact H.
  - cbn [fst]. unfold Send.send_ack. destruct (s_ack s); [apply ST_shutdown; st_leaf|]; exact H.
Qed.
Theorem ST_sstep now o s : ST s -> ST (fst (sstep now o s)).
Proof.
  intros H. unfold Send.sstep.
  assert (H0 : ST (set_s_out [] s)) by (st_leaf; exact H).
  destruct o; cbn [fst].
  - apply ST_process_pdu; exact H0.
  - destruct (s_has_pdu_to_send _); [apply ST_send_pdu|]; exact H0.
  - destruct (s_until_timeout now _) as [[|?]|]; [apply ST_handle_timeout| |]; exact H0.
  - apply ST_cancel_; exact H0.
  - apply ST_suspend; exact H0.
  - unfold s_resume. destruct (s_phase _); st_leaf; exact H0.
  - unfold s_send_report. st_leaf. exact H0.
  - apply ST_shutdown; exact H0.
  - st_leaf. exact H0.
Qed.

Lemma ST_init now cfg m file : 0 < cfg_t_inact cfg -> 0 < cfg_t_ack cfg -> ST (s_new now cfg m file).
Proof. intros A B. unfold ST, s_new. cbn. unfold c_new. cbn. auto. Qed.

Definition SQ (now : N) (s : sstate) : Prop :=
  s_state s <> TActive \/ s_has_pdu_to_send s = true \/ (forall x, s_until_timeout now s = Some x -> 0 < x).

Lemma s_until_pos now (s : sstate) : armed now (t_inact (s_timer s)) -> armed now (t_ack (s_timer s)) ->
  c_paused (t_nak (s_timer s)) = true -> forall x, s_until_timeout now s = Some x -> 0 < x.
Proof.
  intros A B C x. unfold s_until_timeout. destruct (ssuspended s); [discriminate|].
  destruct (s_phase s); try discriminate; apply t_until_pos; auto; apply paused_armed; exact C.
Qed.

Lemma SQ_cancel_ now c s : SQ now (s_cancel_ now c s).
Proof.
  unfold SQ. destruct (tstate_eqb (s_state s) TActive) eqn:Es.
  - right. left. unfold Send.s_cancel_, Send.prepare_eof.
    destruct (get_checksum cksum _) as [s1 ck] eqn:Eg.
    assert (E : s_state s1 = s_state s /\ s_phase s1 = SCancelled /\ s_prompt s1 = s_prompt s).
    { unfold Send.get_checksum in Eg. cbn in Eg. destruct (s_cksum s); [inversion Eg; cbn; auto|].
      destruct (s_is_file_transfer _); [destruct (md_ck _)|]; inversion Eg; cbn; auto. }
    destruct E as (E1 & E2 & E3). unfold s_has_pdu_to_send, ssuspended, eof_flag. cbn. rewrite E1, E2.
    destruct (s_state s); try discriminate. cbn. apply orb_true_r.
  - left. unfold Send.s_cancel_, Send.prepare_eof. destruct (get_checksum cksum _) as [s1 ck] eqn:Eg.
    assert (E : s_state s1 = s_state s).
    { unfold Send.get_checksum in Eg. cbn in Eg. destruct (s_cksum s); [inversion Eg; cbn; auto|].
      destruct (s_is_file_transfer _); [destruct (md_ck _)|]; inversion Eg; cbn; auto. }
    cbn. rewrite E. intros X. rewrite X in Es. discriminate.
Qed.
Lemma cancel_phase now c s : s_phase (s_cancel_ now c s) = SCancelled.
Proof.
  unfold Send.s_cancel_, Send.prepare_eof. destruct (get_checksum cksum _) as [s1 ck] eqn:Eg.
  unfold Send.get_checksum in Eg. cbn in Eg. destruct (s_cksum s); [inversion Eg; reflexivity|].
  destruct (s_is_file_transfer _); [destruct (md_ck _)|]; inversion Eg; reflexivity.
Qed.
(* a fault either cancels / suspends / abandons (the transaction then leaves SendEof or is no longer
   active, and does not spin), or is ignored (no timer, phase or state changes) *)
Lemma s_handle_fault_cases now c s :
  (SQ now (s_handle_fault now c s) /\
   (sphase_eqb (s_phase (s_handle_fault now c s)) SendEof = false \/ tstate_eqb (s_state (s_handle_fault now c s)) TActive = false)) \/
  (s_timer (s_handle_fault now c s) = s_timer s /\ s_phase (s_handle_fault now c s) = s_phase s /\
   s_state (s_handle_fault now c s) = s_state s).
Proof.
  unfold Send.s_handle_fault. destruct (handler _ c).
  - left. split; [apply SQ_cancel_|left; rewrite cancel_phase; reflexivity].
  - left. split; [left; cbn; discriminate|right; reflexivity].
  - right. cbn. auto.
  - left. split; [left; cbn; discriminate|right; reflexivity].
Qed.

Lemma SQ_ht_ack_eof now s : ST s -> armed now (t_inact (s_timer s)) -> SQ now (ht_ack_eof cksum now s).
Proof.
  intros (T1 & T2 & T3) Hi. unfold ht_ack_eof, c_timeout_occurred. cbn [fst snd].
  set (ca := c_update now (t_ack (s_timer s))). assert (Hca : armed now ca) by (apply c_update_armed; exact T2).
  set (s1 := supd_ack (fun _ => ca) s).
  assert (H1 : SQ now s1) by (right; right; apply s_until_pos; cbn; assumption).
  destruct (c_occurred ca); [|exact H1].
  destruct (c_count ca =? c_max ca).
  - destruct (s_handle_fault_cases now PositiveLimitReached s1) as [(H & _)|(X1 & X2 & X3)]; [exact H|].
    right. right. apply s_until_pos; rewrite X1; cbn; assumption.
  - unfold set_eof_flag. destruct (s_eof s1) as [[e b]|]; [|exact H1].
    right. right. apply s_until_pos; cbn; assumption.
Qed.

(* C03 (sender): the timeout arm never leaves the loop spinning *)
Theorem send_no_spin now s : ST s -> SQ now (s_handle_timeout now s).
Proof.
  intros HT. destruct HT as (T1 & T2 & T3). assert (HT : ST s) by (unfold ST; auto).
  unfold Send.s_handle_timeout.
  destruct (s_phase s) eqn:Ep; try (right; right; intros x; unfold s_until_timeout; rewrite Ep; destruct (ssuspended s); discriminate).
  - (* SendEof *)
    unfold c_limit_reached. cbn [fst snd].
    set (ci := c_update now (t_inact (s_timer s))). assert (Hci : armed now ci) by (apply c_update_armed; exact T1).
    set (s1 := supd_inact (fun _ => ci) s).
    assert (HT1 : ST s1) by (unfold ST, s1; cbn; unfold ci; rewrite c_update_timeout; auto).
    destruct (c_count ci =? c_max ci); cbn [andb].
    + destruct (s_handle_fault_cases now InactivityDetected s1) as [(H & Hc)|(X1 & X2 & X3)].
      * destruct Hc as [Hc|Hc]; rewrite Hc; cbn [negb orb]; [exact H|rewrite orb_true_r; exact H].
      * destruct (negb _ || negb _) eqn:Eb.
        -- left. rewrite X2, X3 in Eb. unfold s1 in Eb. cbn in Eb. rewrite Ep in Eb. cbn in Eb.
           intros Hs. rewrite X3 in Hs. unfold s1 in Hs. cbn in Hs. rewrite Hs in Eb. discriminate.
        -- apply SQ_ht_ack_eof; [unfold ST; rewrite X1; exact HT1|rewrite X1; cbn; exact Hci].
    + apply SQ_ht_ack_eof; [exact HT1|cbn; exact Hci].
  - (* Cancelled *)
    unfold c_limit_reached, c_timeout_occurred. cbn [fst snd].
    set (ci := c_update now (t_inact (s_timer s))). assert (Hci : armed now ci) by (apply c_update_armed; exact T1).
    set (s1 := supd_inact (fun _ => ci) s).
    destruct (c_count ci =? c_max ci); [left; cbn; discriminate|].
    set (ca := c_update now (t_ack (s_timer s1))). assert (Hca : armed now ca) by (apply c_update_armed; exact T2).
    set (s2 := supd_ack (fun _ => ca) s1).
    assert (H2 : SQ now s2) by (right; right; apply s_until_pos; cbn; assumption).
    destruct (c_occurred ca); [|exact H2].
    destruct (c_count ca =? c_max ca); [left; cbn; discriminate|].
    unfold set_eof_flag. destruct (s_eof s2) as [[e b]|]; [|exact H2].
    right. right. apply s_until_pos; cbn; assumption.
Qed.

Corollary send_timeout_progress now s : ST s ->
  let s' := s_handle_timeout now s in
  s_state s' = TActive -> s_has_pdu_to_send s' = false -> forall x, s_until_timeout now s' = Some x -> 0 < x.
Proof.
  intros HT s' Hs Hp. destruct (send_no_spin now s HT) as [H|[H|H]]; [contradiction|fold s' in H; congruence|exact H].
Qed.

(* C19 / C17: a resumed send transaction starts both timers afresh - zero expirations counted, the
   next deadline a full period away - however long it was suspended and whatever had been counted
   before (the defect repaired by 628622d: the counts survived the resume) *)
Theorem sender_resume_fresh now s : ST s -> (s_phase s = SendEof \/ s_phase s = SCancelled) ->
  let s' := s_resume now s in
  c_count (t_inact (s_timer s')) = 0 /\ c_count (t_ack (s_timer s')) = 0 /\
  s_until_timeout now s' = Some (N.min (c_timeout (t_ack (s_timer s))) (c_timeout (t_inact (s_timer s)))).
Proof.
  intros (T1 & T2 & T3) Hp. unfold s_resume.
  assert (E : (match s_phase s with SendEof | SCancelled => supd_inact (c_reset now) (supd_ack (c_reset now) s) | _ => s end)
              = supd_inact (c_reset now) (supd_ack (c_reset now) s)) by (destruct Hp as [Hp|Hp]; rewrite Hp; reflexivity).
  rewrite E. cbn zeta. splits; [reflexivity|reflexivity|].
  unfold s_until_timeout, ssuspended. cbn [s_state semit_ind set_s_state set_s_out tstate_eqb].
  assert (Ph : s_phase (semit_ind (IResumed (s_sent (set_s_state TActive (supd_inact (c_reset now) (supd_ack (c_reset now) s)))))
                          (set_s_state TActive (supd_inact (c_reset now) (supd_ack (c_reset now) s)))) = s_phase s) by reflexivity.
  rewrite Ph.
  assert (Hu : t_until now (s_timer (semit_ind (IResumed (s_sent (set_s_state TActive (supd_inact (c_reset now) (supd_ack (c_reset now) s)))))
                          (set_s_state TActive (supd_inact (c_reset now) (supd_ack (c_reset now) s)))))
               = Some (N.min (c_timeout (t_ack (s_timer s))) (c_timeout (t_inact (s_timer s))))).
  { unfold t_until. cbn [s_timer semit_ind set_s_state set_s_out supd_inact supd_ack set_s_timer set_inact set_ack t_inact t_ack t_nak].
    rewrite T3. unfold c_reset, c_until. cbn [c_paused c_start c_timeout omin].
    destruct (N.ltb_spec now (now + c_timeout (t_ack (s_timer s)))); [|lia].
    destruct (N.ltb_spec now (now + c_timeout (t_inact (s_timer s)))); [|lia].
    f_equal. lia. }
  destruct Hp as [Hp|Hp]; rewrite Hp; exact Hu.
Qed.

End SendNoSpin.
