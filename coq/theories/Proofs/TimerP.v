(* Laws of the Counter model (Model/Timer.v): closed form of the count, the first
   instant at which the limit is reached, pause/restart/reset. Used by C17, C19, C03. *)
From CFDP Require Import Base.Prelude Model.Timer.

Lemma div_bounds a b : 0 < b -> (a / b) * b <= a < (a / b + 1) * b.
Proof.
  intros Hb. pose proof (N.div_mod' a b) as Hd. assert (Hb' : b <> 0) by lia.
  pose proof (N.mod_lt a b Hb') as Hm.
  rewrite N.mul_add_distr_r, N.mul_1_l, (N.mul_comm (a / b) b).
  generalize dependent (a mod b). generalize dependent (b * (a / b)). intros. lia.
Qed.

(* a running counter in a consistent state: started in the past, positive period *)
Definition cwf (c : counter) : Prop := c_count c <= c_max c /\ 0 < c_timeout c.
Definition running (now : N) (c : counter) : Prop :=
  c_paused c = false /\ cwf c /\ c_start c <= now.

Lemma c_update_paused now c : c_paused c = true -> c_update now c = c.
Proof. intros H. unfold c_update. rewrite H. reflexivity. Qed.

(* closed form of Counter::update *)
Lemma c_update_spec now c : running now c ->
  let k := (now - c_start c) / c_timeout c in
  let c' := c_update now c in
  c_count c' = N.min (c_max c) (c_count c + k) /\
  c_start c' = c_start c + k * c_timeout c /\
  c_timeout c' = c_timeout c /\ c_max c' = c_max c /\ c_paused c' = false /\
  c_occurred c' = (c_occurred c || negb (k =? 0)) /\
  c_start c' <= now < c_start c' + c_timeout c'.
Proof.
  intros (Hp & (Hc & Ht) & Hs). cbn zeta. unfold c_update. rewrite Hp.
  set (k := (now - c_start c) / c_timeout c).
  assert (Hk : k * c_timeout c <= now - c_start c < (k + 1) * c_timeout c).
  { unfold k. apply div_bounds. assumption. }
  destruct (N.eqb_spec k 0) as [Hk0|Hk0].
  - rewrite Hk0 in *. cbn [negb]. rewrite orb_false_r, N.add_0_r, N.mul_0_l, N.add_0_r.
    rewrite N.mul_0_l, N.add_0_l, N.mul_1_l in Hk.
    splits; try reflexivity.
    + symmetry. apply N.min_r. assumption.
    + assumption.
    + assumption.
    + lia.
  - cbn [c_count c_start c_timeout c_max c_paused c_occurred negb]. rewrite orb_true_r.
    rewrite N.mul_add_distr_r, N.mul_1_l in Hk.
    splits; try reflexivity.
    + generalize dependent (k * c_timeout c). intros. lia.
    + generalize dependent (k * c_timeout c). intros. lia.
Qed.

Lemma c_update_wf now c : cwf c -> cwf (c_update now c).
Proof.
  intros (Hc & Ht). unfold c_update. destruct (c_paused c); [split; assumption|].
  destruct (_ =? 0); [split; assumption|]. split; cbn; lia.
Qed.

(* after a reset at t0 the limit is reached exactly from t0 + max * timeout on *)
Theorem limit_after_reset t0 now c : 0 < c_timeout c -> 0 < c_max c -> t0 <= now ->
  snd (c_limit_reached now (c_reset t0 c)) = (t0 + c_max c * c_timeout c <=? now).
Proof.
  intros Ht Hm Hn. unfold c_limit_reached. cbn [snd].
  assert (Hr : running now (c_reset t0 c)).
  { unfold running, cwf, c_reset; cbn. splits; auto; lia. }
  destruct (c_update_spec now (c_reset t0 c) Hr) as (H1 & H2 & H3 & H4 & _).
  rewrite H1, H4. cbn [c_reset c_count c_max c_start c_timeout].
  set (k := (now - t0) / c_timeout c).
  assert (Hk : k * c_timeout c <= now - t0 < (k + 1) * c_timeout c).
  { unfold k. apply div_bounds. assumption. }
  destruct (N.leb_spec (t0 + c_max c * c_timeout c) now) as [Hl|Hl].
  - apply N.eqb_eq. assert (c_max c <= k) by nia. lia.
  - apply N.eqb_neq. assert (k < c_max c) by nia. lia.
Qed.

(* restart keeps the count: with c expirations already counted the limit is reached
   after (max - c) further periods, never earlier *)
Theorem limit_after_restart t0 now c : cwf c -> c_paused c = true -> c_count c < c_max c -> t0 <= now ->
  snd (c_limit_reached now (c_restart t0 c)) = (t0 + (c_max c - c_count c) * c_timeout c <=? now).
Proof.
  intros (Hc & Ht) Hp Hlt Hn. unfold c_limit_reached. cbn [snd].
  unfold c_restart. rewrite (c_update_paused t0 c Hp).
  set (c1 := mkCounter t0 (c_timeout c) (c_max c) (c_count c) false false).
  assert (Hr : running now c1) by (unfold running, cwf, c1; cbn; splits; auto).
  destruct (c_update_spec now c1 Hr) as (H1 & _ & _ & H4 & _).
  rewrite H1, H4. unfold c1; cbn [c_count c_max c_start c_timeout].
  set (k := (now - t0) / c_timeout c).
  assert (Hk : k * c_timeout c <= now - t0 < (k + 1) * c_timeout c).
  { unfold k. apply div_bounds. assumption. }
  destruct (N.leb_spec (t0 + (c_max c - c_count c) * c_timeout c) now) as [Hl|Hl].
  - apply N.eqb_eq. assert (c_max c - c_count c <= k) by nia. lia.
  - apply N.eqb_neq. assert (k < c_max c - c_count c) by nia. lia.
Qed.

(* a paused counter never changes and never reports a new expiry, however long *)
Theorem paused_frozen now c : c_paused c = true ->
  fst (c_limit_reached now c) = c /\ fst (c_timeout_occurred now c) = c /\
  snd (c_timeout_occurred now c) = c_occurred c.
Proof.
  intros Hp. unfold c_limit_reached, c_timeout_occurred. cbn [fst snd].
  rewrite (c_update_paused now c Hp). auto.
Qed.

(* the n-th expiry after a reset happens exactly at t0 + n * timeout *)
Theorem count_after_reset t0 now c : 0 < c_timeout c -> t0 <= now ->
  c_count (c_update now (c_reset t0 c)) = N.min (c_max c) ((now - t0) / c_timeout c).
Proof.
  intros Ht Hn.
  assert (Hr : running now (c_reset t0 c)) by (unfold running, cwf, c_reset; cbn; splits; auto; lia).
  destruct (c_update_spec now (c_reset t0 c) Hr) as (H1 & _). rewrite H1. cbn. f_equal.
Qed.

Theorem until_after_reset t0 c : c_until t0 (c_reset t0 c) = c_timeout c.
Proof. unfold c_until, c_reset; cbn. destruct (N.ltb_spec t0 (t0 + c_timeout c)); lia. Qed.

Example timer_nonvacuous :
  let c := c_reset 1000 (c_new 0 3000 2) in
  snd (c_limit_reached 6999 c) = false /\ snd (c_limit_reached 7000 c) = true /\
  c_count (c_update 4000 c) = 1 /\ c_until 3500 c = 500.
Proof. vm_compute. auto. Qed.

(* which operations leave a counter running *)
Lemma c_update_paused_eq now c : c_paused (c_update now c) = c_paused c.
Proof. unfold c_update. destruct (c_paused c) eqn:E; [exact E|]. destruct (_ =? 0); [exact E|reflexivity]. Qed.
Lemma c_restart_running now c : c_paused (c_restart now c) = false.
Proof. reflexivity. Qed.
Lemma c_reset_running now c : c_paused (c_reset now c) = false.
Proof. reflexivity. Qed.
Lemma c_until_some now (t : timer) : c_paused (t_inact t) = false -> t_until now t <> None.
Proof.
  intros H. unfold t_until. rewrite H. destruct (c_paused (t_ack t)); destruct (c_paused (t_nak t)); cbn; discriminate.
Qed.
Lemma omin_some a b : omin a b <> None.
Proof. destruct a; cbn; discriminate. Qed.
