(* C01, composition: in the two-machine system (Model/Link.v) - whatever the link loses,
   duplicates, reorders or delays, whatever the users and the timers do - every PDU in flight
   towards the receiver is truthful for the sender's file and metadata; hence (DeliverP) whenever
   the receive transaction reports or announces Retained / Complete, the receiving filestore
   holds exactly the source file under the destination name. *)
From CFDP Require Import Base.Prelude Model.Segments Model.Timer Model.TxTypes Model.Recv Model.Send
  Model.TxInst Model.Link Proofs.SegmentsP Proofs.Tac Proofs.RecvP Proofs.StageP Proofs.SendP Proofs.DeliverP.

Lemma name_eqb_refl a : name_eqb a a = true.
Proof. induction a as [|x a IH]; cbn; [reflexivity|]. rewrite N.eqb_refl, IH. reflexivity. Qed.

Lemma flat_write_lookup fs name content fs' :
  flat_write fs name content = Some fs' -> flat_lookup fs' name = Some content.
Proof.
  unfold flat_write. destruct (existsb _ name); [discriminate|]. intros H. inversion H; subst.
  cbn. rewrite name_eqb_refl. reflexivity.
Qed.

Lemma in_skipn_S {A} (z : A) : forall i (q : list A), In z (skipn (S i) q) -> In z (skipn i q).
Proof.
  induction i as [|i IH]; intros q Hz.
  - destruct q; [destruct Hz|]. right. exact Hz.
  - destruct q as [|h q]; [destruct Hz|]. cbn [skipn] in *. apply IH. exact Hz.
Qed.
Lemma pick_spec {A} k (q : list A) x q' : pick k q = Some (x, q') -> In x q /\ (forall y, In y q' -> In y q).
Proof.
  unfold pick. intros H.
  assert (H' : match nth_error q (N.to_nat (k mod N.of_nat (length q))) with
               | Some x0 => Some (x0, firstn (N.to_nat (k mod N.of_nat (length q))) q ++
                                      skipn (S (N.to_nat (k mod N.of_nat (length q)))) q)
               | None => None end = Some (x, q')) by (destruct q; [discriminate|exact H]).
  clear H. set (i := N.to_nat (k mod N.of_nat (length q))) in *.
  destruct (nth_error q i) as [y|] eqn:En; [|discriminate]. inversion H'; subst. split.
  - eapply nth_error_In. exact En.
  - intros z Hz. rewrite <- (firstn_skipn i q). apply in_or_app. apply in_app_or in Hz as [Hz|Hz]; [left; exact Hz|].
    right. apply in_skipn_S. exact Hz.
Qed.

Section LinkP.
Variable f : bytes.
Variable m : metadata.
Hypothesis no_requests : md_reqs m = [].

Notation DUi := (DU flat_fs flat_lookup f m).
Notation DGi := (DG flat_fs flat_lookup f m).
Notation inst_DG_rstep := (DG_rstep flat_fs flat_write inst_exec inst_resp_fail inst_not_performed inst_cksum
                             inst_resp_len inst_tlv_len flat_lookup flat_write_lookup f m no_requests).

Definition truthful_pl (p : payload) : Prop := truthful_in f m (RPdu p).

(* the receiving filestore holds f under the destination name, for good *)
Definition DLV (l : lstate) : Prop :=
  flat_lookup (r_fs (l_r l)) (md_dst m) = Some f /\
  (r_state (l_r l) = TTerminated \/ not_recv flat_fs (l_r l)).
(* once a success claim has been emitted the receiving filestore holds f and is frozen *)
Definition LO (l : lstate) : Prop := (exists o, In o (l_racc l) /\ success_out o) -> DLV l.
(* the same for the sending entity's success indications *)
Definition LOS (l : lstate) : Prop := (exists o, In o (l_sacc l) /\ s_success o) -> DLV l.
(* every Finished PDU in flight that says Retained / Complete is backed by the delivered file *)
Definition fin_backed (l : lstate) (p : payload) : Prop :=
  match p with PFinished fn => fin_fs fn = FRetained -> fin_dc fn = DComplete -> DLV l | _ => True end.

Definition LI (l : lstate) : Prop :=
  S7 (l_s l) /\ SE f m (l_s l) /\
  Forall truthful_pl (l_sr l) /\
  DGi (l_r l) /\ (l_rdead l = false -> DUi (l_r l)) /\
  (r_state (l_r l) = TTerminated -> l_rdead l = true) /\
  LO l /\
  SF (DLV l) (l_s l) /\ Forall (fin_backed l) (l_rs l) /\ LOS l.

Lemma SF_mono (P Q : Prop) s : (P -> Q) -> SF P s -> SF Q s.
Proof. unfold SF. intros H (A & B). split; [auto|exact B]. Qed.
Lemma fin_backed_mono l l' p : (DLV l -> DLV l') -> fin_backed l p -> fin_backed l' p.
Proof. unfold fin_backed. destruct p; auto. Qed.

(* what a sender satisfying S7 and SE emits is truthful *)
Lemma sender_outputs_truthful (s : sstate) : S7 s -> SE f m s -> Forall truthful_pl (pdus_of (rev (s_out s))).
Proof.
  intros (A & _ & _ & _ & _ & _ & F) (M & _ & P & Fl).
  apply Forall_forall. intros p Hp. unfold pdus_of in Hp. apply in_flat_map in Hp as (o & Ho & Hp).
  apply in_rev in Ho. rewrite Forall_forall in F, P. specialize (F o Ho). specialize (P o Ho).
  destruct o as [pd|i]; [|destruct Hp]. destruct Hp as [Hp|[]]. subst p.
  unfold truthful_pl, truthful_in. unfold fd_ok in F. unfold pdu_true in P.
  destruct (o_payload pd) as [off d| e | | | m' | | |]; try exact I.
  - destruct F as (F1 & _ & _ & F4). unfold truthful_fd. cbn [fst snd]. rewrite <- Fl. auto.
  - intros _. rewrite P, <- M, A. unfold flen. rewrite Fl. reflexivity.
  - exact P.
Qed.

Lemma LI_sstep o l : LI l ->
  (forall fn, o = SPdu (PFinished fn) -> fin_backed l (PFinished fn)) -> LI (l_sstep o l).
Proof.
  intros H Hfin. unfold l_sstep. destruct (l_sdead l); [exact H|].
  destruct H as (A & B & C & D & E & F & G & SFl & LFl & LSl).
  pose proof (S7_sstep inst_cksum inst_tlv_len inst_tlv_len (l_now l) o (l_s l) A) as A'.
  pose proof (SE_sstep inst_cksum inst_tlv_len inst_tlv_len f m (l_now l) o (l_s l) B) as B'.
  assert (SF' : SF (DLV l) (fst (sstep inst_cksum inst_tlv_len inst_tlv_len (l_now l) o (l_s l)))).
  { apply (SF_sstep inst_cksum inst_tlv_len inst_tlv_len f (DLV l)); [exact SFl|]. intros fn Eo. exact (Hfin fn Eo). }
  unfold inst_sstep. destruct (sstep inst_cksum inst_tlv_len inst_tlv_len (l_now l) o (l_s l)) as [s' r].
  cbn [fst] in A', B', SF'. unfold LI, LO, LOS. cbn. splits; auto.
  - destruct (l_cut_sr l); [exact C|]. apply Forall_app. split; [exact C|apply sender_outputs_truthful; assumption].
  - intros (x & Hin & Hs). apply in_app_or in Hin as [Hin|Hin]; [apply LSl; exists x; split; assumption|].
    apply in_rev in Hin. destruct SF' as (S1 & S2). rewrite Forall_forall in S2. destruct (S2 x Hin Hs) as (X & Y). exact (S1 X Y).
Qed.

Lemma DLV_persist l l' : DLV l -> r_fs (l_r l') = r_fs (l_r l) ->
  (r_state (l_r l') = TTerminated \/ not_recv flat_fs (l_r l')) -> DLV l'.
Proof. unfold DLV. intros (A & _) E H. rewrite E. split; assumption. Qed.

Lemma LI_rstep o l : LI l -> truthful_in f m o -> LI (l_rstep o l).
Proof.
  intros H Ht. unfold l_rstep. destruct (l_rdead l) eqn:Ed; [exact H|].
  destruct H as (A & B & C & D & E & F & G & SFl & LFl & LSl). specialize (E Ed).
  pose proof (inst_DG_rstep (l_now l) o (l_r l) E Ht) as D'.
  pose proof (DG_outputs _ _ _ _ _ D') as Ho. pose proof (DG_frozen _ _ _ _ _ D') as Hf.
  assert (Hfr : not_recv flat_fs (l_r l) ->
    r_fs (fst (inst_rstep (l_now l) o (l_r l))) = r_fs (l_r l) /\ not_recv flat_fs (fst (inst_rstep (l_now l) o (l_r l)))).
  { intros Hn. destruct (rstep_frozen flat_fs flat_write inst_exec inst_resp_fail inst_not_performed inst_cksum
                          inst_resp_len inst_tlv_len (l_now l) o (l_r l) Hn) as (X & Y & _). split; assumption. }
  unfold inst_rstep in *. destruct (rstep flat_fs flat_write inst_exec inst_resp_fail inst_not_performed inst_cksum
                                      inst_resp_len inst_tlv_len (l_now l) o (l_r l)) as [r' res].
  cbn [fst] in *.
  (* a delivery that held before this step still holds after it *)
  set (l' := mkL (l_s l) r' (l_sr l) (if l_cut_rs l then l_rs l else l_rs l ++ pdus_of (rev (r_out r')))
                 (l_sdead l) (is_err res || tstate_eqb (r_state r') TTerminated) (l_cut_sr l) (l_cut_rs l) (l_now l)
                 (l_sacc l) (l_racc l ++ rev (r_out r')) (l_sres l) res (l_iters l)).
  assert (Hkeep : DLV l -> DLV l').
  { intros (G1 & [G2|G2]); [rewrite (F G2) in Ed; discriminate|].
    destruct (Hfr G2) as (X & Y). unfold DLV, l'. cbn. rewrite X. split; [exact G1|right; exact Y]. }
  assert (Hnew : forall x, In x (r_out r') -> success_out x -> DLV l').
  { intros x Hin Hs. rewrite Forall_forall in Ho. unfold DLV, l'. cbn. split; [apply (Ho x Hin Hs)|].
    apply Hf. exists x. split; assumption. }
  change (LI l'). unfold LI. splits.
  - exact A.
  - exact B.
  - exact C.
  - exact D'.
  - change (l_rdead l') with (is_err res || tstate_eqb (r_state r') TTerminated). change (l_r l') with r'.
    intros Hd. apply orb_false_elim in Hd as (_ & Hd).
    destruct D' as [D'|(Hterm & _)]; [exact D'|]. rewrite Hterm in Hd. discriminate.
  - change (l_rdead l') with (is_err res || tstate_eqb (r_state r') TTerminated). change (l_r l') with r'.
    intros Hterm. rewrite Hterm. cbn. apply orb_true_r.
  - unfold LO. change (l_racc l') with (l_racc l ++ rev (r_out r')).
    intros (x & Hin & Hs). apply in_app_or in Hin as [Hin|Hin].
    + apply Hkeep. apply G. exists x. split; assumption.
    + apply in_rev in Hin. apply (Hnew x Hin Hs).
  - change (l_s l') with (l_s l). eapply SF_mono; [exact Hkeep|exact SFl].
  - change (l_rs l') with (if l_cut_rs l then l_rs l else l_rs l ++ pdus_of (rev (r_out r'))).
    assert (Hold : Forall (fin_backed l') (l_rs l)).
    { eapply Forall_impl; [|exact LFl]. intros p Hp. eapply fin_backed_mono; [exact Hkeep|exact Hp]. }
    destruct (l_cut_rs l); [exact Hold|]. apply Forall_app. split; [exact Hold|].
    apply Forall_forall. intros p Hp. unfold pdus_of in Hp. apply in_flat_map in Hp as (x & Hx & Hp).
    apply in_rev in Hx. destruct x as [pd|i]; [|destruct Hp]. destruct Hp as [Hp|[]]. subst p.
    unfold fin_backed. destruct (o_payload pd) eqn:Epl; try exact I. intros Hfs Hdc.
    apply (Hnew (OPdu pd) Hx). unfold success_out. rewrite Epl. split; assumption.
  - unfold LOS. change (l_sacc l') with (l_sacc l). intros Hx. apply Hkeep. apply LSl. exact Hx.
Qed.

Lemma LI_queues sr rs l : LI l -> (forall p, In p sr -> In p (l_sr l)) -> (forall p, In p rs -> In p (l_rs l)) ->
  LI (set_queues sr rs l).
Proof.
  intros (A & B & C & D & E & F & G & SFl & LFl & LSl) Hsub Hsub2. unfold LI, LO, LOS. cbn. splits; auto.
  - rewrite Forall_forall in *. auto.
  - rewrite Forall_forall in *. intros p Hp. apply (LFl p (Hsub2 p Hp)).
Qed.
Lemma LI_cuts a b l : LI l -> LI (set_cuts a b l).
Proof. intros H. exact H. Qed.
Lemma LI_now t l : LI l -> LI (set_now t l).
Proof. intros H. exact H. Qed.
Lemma LI_iters k l : LI l -> LI (set_iters k l).
Proof. intros H. exact H. Qed.
Lemma LI_clear l : LI l -> LI (clear_acc l).
Proof.
  intros (A & B & C & D & E & F & G & SFl & LFl & LSl). unfold LI, LO, LOS. cbn. splits; auto; intros (o & [] & _).
Qed.

Lemma LI_deliver to_recv p l : LI l -> (to_recv = true -> truthful_pl p) -> (to_recv = false -> fin_backed l p) ->
  LI (deliver to_recv p l).
Proof.
  intros H Hp Hq. unfold deliver. destruct to_recv; [apply LI_rstep; [exact H|apply Hp; reflexivity]|].
  apply LI_sstep; [exact H|]. intros fn E. inversion E; subst. apply Hq. reflexivity.
Qed.

Lemma LI_head l p q : LI l -> l_sr l = p :: q -> truthful_pl p /\ (forall x, In x q -> In x (l_sr l)).
Proof.
  intros (_ & _ & C & _) E. rewrite E in *. inversion C; subst. split; [assumption|]. intros x Hx. right. exact Hx.
Qed.
Lemma LI_rs_in l p : LI l -> In p (l_rs l) -> fin_backed l p.
Proof. intros (_ & _ & _ & _ & _ & _ & _ & _ & LFl & _) Hin. rewrite Forall_forall in LFl. auto. Qed.
Lemma no_spdu u fn : sop_of u <> SPdu (PFinished fn).
Proof. destruct u; discriminate. Qed.

Lemma LI_run1 l l' : LI l -> run1 l = Some l' -> LI l'.
Proof.
  intros H. unfold run1.
  destruct (s_alive l && s_has_pdu_to_send (l_s l));
    [intros E; injection E as E; subst l'; apply LI_sstep; [exact H|intros fn X; discriminate]|].
  destruct (r_alive l && has_pdu_to_send (l_r l)); [intros E; injection E as E; subst l'; apply LI_rstep; [exact H|exact I]|].
  destruct (l_sr l) as [|p q] eqn:Esr.
  2: { intros E. injection E as E. subst l'. destruct (LI_head l p q H Esr) as (Hp & Hq).
       apply (LI_deliver true p (set_queues q (l_rs l) l)); [apply LI_queues; [exact H|exact Hq|auto]|intros _; exact Hp|intros X; discriminate]. }
  destruct (l_rs l) as [|p q] eqn:Ers.
  2: { intros E. injection E as E. subst l'.
       assert (Hb : fin_backed l p) by (apply LI_rs_in; [exact H|rewrite Ers; left; reflexivity]).
       apply (LI_deliver false p (set_queues [] q l)); [apply LI_queues; [exact H| |]|intros Hx; discriminate|intros _; exact Hb].
       - intros x [].
       - intros x Hx. rewrite Ers. right. exact Hx. }
  destruct (omin2 _ _) as [d|]; [|discriminate]. intros E. injection E as E. subst l'.
  set (l1 := set_now (l_now l + d) l). assert (H1 : LI l1) by exact H.
  set (l2 := if s_alive l1 && is_zero (s_until_timeout (l_now l1) (l_s l1)) then l_sstep STimeout l1 else l1).
  assert (H2 : LI l2) by (unfold l2; destruct (_ && _); [apply LI_sstep; [|intros fn X; discriminate]|]; exact H1).
  change (LI (if r_alive l2 && is_zero (until_timeout (l_now l2) (l_r l2)) then l_rstep RTimeout l2 else l2)).
  clearbody l2.
  destruct (r_alive l2 && is_zero (until_timeout (l_now l2) (l_r l2))); [apply LI_rstep; [exact H2|exact I]|exact H2].
Qed.

Lemma LI_run fuel : forall l, LI l -> LI (Link.run fuel l).
Proof.
  induction fuel as [|n IH]; intros l H; cbn [Link.run]; [exact H|].
  destruct (run1 l) as [l'|] eqn:E; [|exact H]. apply IH. apply LI_iters. eapply LI_run1; eassumption.
Qed.

Theorem LI_lstep o l : LI l -> LI (lstep o l).
Proof.
  intros H0. unfold lstep. pose proof (LI_clear l H0) as H. remember (clear_acc l) as l0 eqn:E0. clear E0 H0 l.
  destruct o.
  - apply LI_sstep; [exact H|]. intros fn X. exfalso. exact (no_spdu u fn X).
  - destruct (rop_of u) as [o|] eqn:Eo; [|exact H]. apply LI_rstep; [exact H|].
    destruct u; inversion Eo; exact I.
  - destruct to_recv.
    + destruct (pick k (l_sr l0)) as [[p q]|] eqn:Ep; [|exact H]. destruct (pick_spec _ _ _ _ Ep) as (Hin & Hsub).
      apply (LI_deliver true p (set_queues q (l_rs l0) l0)); [apply LI_queues; [exact H|exact Hsub|auto]| |intros X; discriminate].
      intros _. destruct H as (_ & _ & C & _). rewrite Forall_forall in C. apply C. exact Hin.
    + destruct (pick k (l_rs l0)) as [[p q]|] eqn:Ep; [|exact H]. destruct (pick_spec _ _ _ _ Ep) as (Hin & Hsub).
      apply (LI_deliver false p (set_queues (l_sr l0) q l0)); [apply LI_queues; [exact H|auto|exact Hsub]|intros Hx; discriminate|].
      intros _. apply (LI_rs_in l0 p H Hin).
  - destruct (pick k (if to_recv then l_sr l0 else l_rs l0)) as [[p q]|] eqn:Ep; [|exact H].
    destruct (pick_spec _ _ _ _ Ep) as (Hin & _).
    apply LI_deliver; [exact H| |].
    + intros Hr. subst to_recv. destruct H as (_ & _ & C & _). rewrite Forall_forall in C. apply C. exact Hin.
    + intros Hr. subst to_recv. apply (LI_rs_in l0 p H Hin).
  - destruct to_recv.
    + destruct (pick k (l_sr l0)) as [[p q]|] eqn:Ep; [|exact H]. destruct (pick_spec _ _ _ _ Ep) as (_ & Hsub).
      apply LI_queues; [exact H|exact Hsub|auto].
    + destruct (pick k (l_rs l0)) as [[p q]|] eqn:Ep; [|exact H]. destruct (pick_spec _ _ _ _ Ep) as (_ & Hsub).
      apply LI_queues; [exact H|auto|exact Hsub].
  - destruct to_recv; exact H.
  - exact H.
  - apply LI_run. exact H.
Qed.

Lemma LI_init now cfg np : md_size m = N.of_nat (length f) -> 0 < cfg_seg cfg -> LI (l_new now cfg np m f).
Proof.
  intros Hs Hseg. unfold LI, LO, LOS, l_new. cbn [l_s l_r l_sr l_rs l_rdead l_racc l_sacc]. splits.
  - apply S7_init; assumption.
  - apply SE_init.
  - constructor.
  - left. apply DU_init.
  - intros _. apply DU_init.
  - intros Hx. discriminate.
  - intros (o & [] & _).
  - apply (SF_init inst_tlv_len inst_tlv_len f).
  - constructor.
  - intros (o & Hin & Hs'). apply in_rev in Hin. cbn in Hin. destruct Hin as [Hin|[]]. subst o. destruct Hs'.
Qed.

(* C01 over the whole system: for every script of link and user behaviour *)
Theorem system_delivered now cfg np ops : md_size m = N.of_nat (length f) -> 0 < cfg_seg cfg ->
  let l := lrun ops (l_new now cfg np m f) in
  Forall truthful_pl (l_sr l) /\
  (forall o, In o (l_racc l) -> success_out o -> flat_lookup (r_fs (l_r l)) (md_dst m) = Some f) /\
  (forall o, In o (l_sacc l) -> s_success o -> flat_lookup (r_fs (l_r l)) (md_dst m) = Some f).
Proof.
  intros Hs Hseg. cbn zeta.
  assert (H : LI (lrun ops (l_new now cfg np m f))).
  { unfold lrun. generalize (LI_init now cfg np Hs Hseg). generalize (l_new now cfg np m f).
    induction ops as [|o t IH]; intros l H; cbn [fold_left]; [exact H|]. apply IH. apply LI_lstep. exact H. }
  destruct H as (_ & _ & C & _ & _ & _ & G & _ & _ & LSl). split; [exact C|]. split.
  - intros o Hin Hsucc. apply G. exists o. split; assumption.
  - intros o Hin Hsucc. apply LSl. exists o. split; assumption.
Qed.

End LinkP.
