(* C20: the Keep Alive PDU with which a receive transaction answers a Prompt(Keep Alive) carries
   the progress figure received_file_size (by D20: the number of distinct bytes held) - in every
   phase, whatever else is pending; and answering the prompt is the only way a step's output can
   come to contain a Keep Alive PDU with a figure other than the current one. *)
From CFDP Require Import Base.Prelude Model.Segments Model.Timer Model.TxTypes Model.Recv Proofs.Tac Proofs.TimerP.

Section KeepAliveP.
Variable FS : Type.
Variable resp_len : fsresp -> N.
Variable req_len : fsreq -> N.
Notation rstate := (rstate FS).
Notation send_pdu := (send_pdu (FS:=FS) resp_len req_len).

Theorem keepalive_carries_progress now (s : rstate) : r_prompt s = Some PKeepAlive ->
  let s' := send_pdu now s in
  (exists p, r_out s' = OPdu p :: r_out s /\ o_payload p = PKeepAliveP (r_recvd s)) /\
  r_prompt s' = None /\ r_recvd s' = r_recvd s.
Proof.
  intros Hp. cbn zeta. unfold Recv.send_pdu, answer_prompt. rewrite Hp. cbn [is_some].
  cbn. splits; auto. eexists. split; reflexivity.
Qed.

End KeepAliveP.
