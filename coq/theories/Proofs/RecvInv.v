(* Invariant passes over the receive-transaction model (C19, C20, C18, C17). *)
From CFDP Require Import Base.Prelude Model.Segments Model.Timer Model.TxTypes Model.Recv
  Proofs.SegmentsP Proofs.TimerP Proofs.Tac Proofs.RecvP.

(* recursive solver for goals [J state-expression] *)
Ltac solve_st J ext calls :=
  lazymatch goal with
  | |- J ?t =>
      first [ assumption
            | calls tt; solve_st J ext calls
            | let b := strip_r_ne t in
              tryif constr_eq b t then fail
              else (eapply (ext b); [ solve_st J ext calls | reflexivity .. ])
            | let b := strip_r t in
              tryif constr_eq b t then fail
              else (eapply (ext b); [ solve_st J ext calls | reflexivity .. ]) ]
  end.

Section RecvInv.
Variable FS : Type.
Variable fs_write_file : FS -> bytes -> bytes -> option FS.
Variable fs_exec : FS -> fsreq -> FS * fsresp.
Variable resp_fail : fsresp -> bool.
Variable not_performed : fsreq -> fsresp.
Variable cksum : cktype -> bytes -> N.
Variable resp_len : fsresp -> N.
Variable req_len : fsreq -> N.

Notation rstate := (rstate FS).
Notation rstep := (rstep FS fs_write_file fs_exec resp_fail not_performed cksum resp_len req_len).
Notation process_pdu := (process_pdu FS fs_write_file fs_exec resp_fail not_performed cksum).
Notation check_finished := (check_finished FS fs_write_file fs_exec resp_fail not_performed cksum).
Notation finalize_receive := (finalize_receive FS fs_write_file fs_exec resp_fail not_performed cksum).

(* ================= C19: what a transaction emits while it processes a PDU ================= *)
Definition limit_cond (c : cond) : Prop :=
  c = InactivityDetected \/ c = PositiveLimitReached \/ c = NakLimitReached.
(* quiet: no PDU, no timer-limit fault *)
Definition quiet (o : out) : Prop :=
  match o with
  | OPdu _ => False
  | OInd (IFault c _) => ~ limit_cond c
  | OInd _ => True
  end.
Definition JQ (s : rstate) : Prop := Forall quiet (r_out s).

Lemma JQ_ext (s s' : rstate) : JQ s -> r_out s' = r_out s -> JQ s'.
Proof. unfold JQ. intros H E. rewrite E. exact H. Qed.
Lemma JQ_ind i (s : rstate) : quiet (OInd i) -> JQ s -> JQ (emit_ind i s).
Proof. unfold JQ. cbn. intros Q H. constructor; assumption. Qed.

Ltac jq_side := cbn; unfold limit_cond; intuition congruence.

Lemma JQ_shutdown now s : JQ s -> JQ (shutdown now s).
Proof. intros H. eapply JQ_ext; [exact H|reflexivity]. Qed.
Lemma JQ_abandon now s : JQ s -> JQ (abandon now s).
Proof. intros H. apply JQ_shutdown. unfold abandon. apply JQ_ind; [exact I|]. eapply JQ_ext; [exact H|reflexivity]. Qed.
Lemma JQ_suspend now s : JQ s -> JQ (suspend now s).
Proof. intros H. unfold suspend. apply JQ_ind; [exact I|]. eapply JQ_ext; [exact H|reflexivity]. Qed.
Lemma JQ_cancel_ now s : JQ s -> JQ (cancel_ now s).
Proof.
  intros H. unfold cancel_. apply JQ_ind; [exact I|].
  destruct (cfg_mode _); [|destruct (closure _)]; try apply JQ_shutdown;
    (eapply JQ_ext; [exact H|reflexivity]).
Qed.
Lemma JQ_handle_fault now c s : ~ limit_cond c -> JQ s -> JQ (fst (handle_fault now c s)).
Proof.
  intros Hc H. unfold handle_fault.
  assert (H1 : JQ (emit_ind (IFault c (r_recvd (set_r_cond c s))) (set_r_cond c s))).
  { apply JQ_ind; [exact Hc|]. eapply JQ_ext; [exact H|reflexivity]. }
  destruct (handler _ c); cbn [fst]; [apply JQ_cancel_|apply JQ_suspend| |apply JQ_abandon]; exact H1.
Qed.

Ltac jq_calls _ :=
  lazymatch goal with
  | |- JQ (shutdown _ _) => apply JQ_shutdown
  | |- JQ (abandon _ _) => apply JQ_abandon
  | |- JQ (suspend _ _) => apply JQ_suspend
  | |- JQ (cancel_ _ _) => apply JQ_cancel_
  | |- JQ (fst (handle_fault _ _ _)) => apply JQ_handle_fault; [jq_side|]
  | |- JQ (emit_ind _ _) => apply JQ_ind; [jq_side|]
  end.
Ltac jq := solve_st JQ JQ_ext jq_calls.
Ltac pass_q := repeat (first [destr_pair_keep | destr_inner]; cbn [fst snd]); try jq.

Lemma JQ_check_file_size now size s : JQ s -> JQ (check_file_size now size s).
Proof. intros H. unfold check_file_size. pass_q. Qed.

Lemma JQ_store off d s : JQ s -> JQ (store_file_data off d s).
Proof.
  intros H. unfold store_file_data. destruct (is_nil d); [exact H|].
  destruct (ins _ _ _). jq.
Qed.

Lemma JQ_fr_verify now s : JQ s -> JQ (fst (fr_verify FS cksum now s)).
Proof. intros H. unfold fr_verify. pass_q. Qed.
Lemma JQ_fr_store s : JQ s -> JQ (fr_store FS fs_write_file s).
Proof. intros H. unfold fr_store. pass_q. Qed.
Lemma JQ_fr_rejection now s : JQ s -> JQ (fst (fr_rejection now s)).
Proof. intros H. unfold fr_rejection. destruct (r_fstat s); cbn [fst]; try exact H. jq. Qed.
Lemma JQ_fr_requests s : JQ s -> JQ (fr_requests FS fs_exec resp_fail not_performed s).
Proof. intros H. unfold fr_requests. destruct (run_requests _ _ _ _ _ _ _). jq. Qed.

Lemma JQ_finalize now s : JQ s -> JQ (finalize_receive now s).
Proof.
  intros H. unfold Recv.finalize_receive.
  set (s0 := set_r_dc _ s). assert (H0 : JQ s0) by (unfold s0; jq). clearbody s0. clear H.
  assert (H1 : JQ (fst (if is_file_transfer s0
                        then let '(s1, go) := fr_verify FS cksum now s0 in
                             if go then (fr_store FS fs_write_file s1, true) else (s1, false)
                        else (set_r_fstat FUnreported s0, true)))).
  { destruct (is_file_transfer s0); cbn [fst]; [|jq].
    pose proof (JQ_fr_verify now s0 H0) as Hv. destruct (fr_verify FS cksum now s0) as [s1 go]. cbn [fst] in Hv.
    destruct go; cbn [fst]; [apply JQ_fr_store|]; exact Hv. }
  destruct (if is_file_transfer s0 then _ else _) as [s2 go2]. cbn [fst] in H1.
  destruct go2; [|exact H1].
  pose proof (JQ_fr_rejection now s2 H1) as H2. destruct (fr_rejection now s2) as [s3 go3]. cbn [fst] in H2.
  destruct go3; [apply JQ_fr_requests|]; exact H2.
Qed.

Lemma JQ_check_finished now s : JQ s -> JQ (check_finished now s).
Proof.
  intros H. unfold Recv.check_finished. destr_inner; [|exact H].
  eapply JQ_ext; [apply (JQ_finalize now s H)|reflexivity].
Qed.

Ltac jq2_calls _ :=
  lazymatch goal with
  | |- JQ (check_file_size _ _ _) => apply JQ_check_file_size
  | |- JQ (store_file_data _ _ _) => apply JQ_store
  | |- JQ (check_finished _ _) => apply JQ_check_finished
  | |- JQ (finalize_receive _ _) => apply JQ_finalize
  | _ => jq_calls tt
  end.
Ltac jq2 := solve_st JQ JQ_ext jq2_calls.
Ltac pass_q2 := repeat (first [destr_pair_keep | destr_inner]; cbn [fst snd]); try jq2.

Lemma JQ_filedata_acked now o d s : JQ s ->
  JQ (pdu_filedata_acked FS fs_write_file fs_exec resp_fail not_performed cksum now o d s).
Proof.
  intros H. unfold pdu_filedata_acked. destr_inner; [exact H|].
  apply JQ_check_finished. unfold c_timeout_occurred. pass_q2.
Qed.

Lemma JQ_eof_acked now e s : JQ s ->
  JQ (pdu_eof_acked FS fs_write_file fs_exec resp_fail not_performed cksum now e s).
Proof. intros H. unfold pdu_eof_acked. pass_q2. Qed.

Lemma JQ_metadata_acked now m s : JQ s ->
  JQ (pdu_metadata_acked FS fs_write_file fs_exec resp_fail not_performed cksum now m s).
Proof. intros H. unfold pdu_metadata_acked, set_metadata. pass_q2. Qed.

Lemma JQ_eof_unacked now e s : JQ s ->
  JQ (pdu_eof_unacked FS fs_write_file fs_exec resp_fail not_performed cksum now e s).
Proof. intros H. unfold pdu_eof_unacked. pass_q2. Qed.

(* processing a received PDU never transmits anything and never declares a limit fault *)
Lemma JQ_process_pdu now p s : JQ s -> JQ (fst (process_pdu now p s)).
Proof.
  intros H. unfold Recv.process_pdu.
  set (s0 := if suspended s then s else upd_inact (c_reset now) s).
  assert (H0 : JQ s0) by (unfold s0; destruct (suspended s); jq). clearbody s0. clear H.
  destruct (cfg_mode (r_cfg s0)); destruct p; cbn [fst]; try exact H0;
    first [ apply JQ_filedata_acked | apply JQ_eof_acked | apply JQ_metadata_acked | apply JQ_eof_unacked | idtac ];
    try exact H0;
    unfold pdu_ack_acked, pdu_ack_unacked, pdu_metadata_unacked, pdu_filedata_unacked, set_metadata;
    repeat (destr_inner; cbn [fst snd]); try exact H0; try jq2.
Qed.

(* C19 at the level of one loop iteration: while the transaction is suspended, whatever the
   operation (received PDU, send opportunity, timer expiry, user request), nothing is
   transmitted and no limit fault is declared; has_pdu_to_send and until_timeout say so *)
Theorem suspended_silent now o s : suspended s = true ->
  has_pdu_to_send s = false /\ until_timeout now s = None /\
  Forall quiet (r_out (fst (rstep now o s))).
Proof.
  intros Hs. unfold has_pdu_to_send, until_timeout. rewrite Hs. splits; try reflexivity.
  change (JQ (fst (rstep now o s))). unfold Recv.rstep.
  assert (H0 : JQ (set_r_out [] s)) by (unfold JQ; cbn; constructor).
  assert (Hs0 : suspended (set_r_out [] s) = true) by exact Hs.
  destruct o; cbn [fst].
  - apply JQ_process_pdu; exact H0.
  - unfold has_pdu_to_send. rewrite Hs0. exact H0.
  - unfold until_timeout. rewrite Hs0. exact H0.
  - unfold cancel. apply JQ_cancel_. jq.
  - apply JQ_suspend; exact H0.
  - unfold resume. repeat (destr_inner; cbn [fst snd]); jq.
  - unfold send_report. jq.
  - apply JQ_shutdown; exact H0.
Qed.


(* ================= C20: the receiver's progress figure ================= *)
(* the bookkeeping invariant: the segment list is well-formed and the running count
   received_file_size equals the number of bytes it covers (= distinct bytes held, C09) *)
Definition D20 (s : rstate) : Prop := Inv (r_segs s) /\ r_recvd s = total (r_segs s).

Lemma D20_ext (s s' : rstate) : D20 s -> r_segs s' = r_segs s -> r_recvd s' = r_recvd s -> D20 s'.
Proof. unfold D20. intros (A & B) E1 E2. rewrite E1, E2. auto. Qed.

Lemma D20_of_Kp (s s' : rstate) : Kp FS s s' -> D20 s -> D20 s'.
Proof. intros (_ & _ & _ & (E1 & E2 & _)) H. eapply D20_ext; eassumption. Qed.

Lemma D20_store off d s : D20 s -> D20 (store_file_data off d s).
Proof.
  intros (Hi & Hr). unfold store_file_data. destruct (is_nil d) eqn:En; [split; assumption|].
  cbn [r_segs set_r_staged].
  destruct (ins off (off + N.of_nat (length d)) (r_segs s)) as [v n] eqn:E.
  assert (Hlt : off < off + N.of_nat (length d)).
  { destruct d; [discriminate|]. cbn [length]. lia. }
  destruct (ins_ok _ _ _ Hlt Hi _ _ E) as (H1 & _ & H3 & _).
  unfold D20. cbn. split; [exact H1|]. rewrite H3, Hr. reflexivity.
Qed.

Ltac d20_kp lem := eapply D20_of_Kp; [ apply lem; apply Kp_refl | ].
Ltac d20_calls _ :=
  lazymatch goal with
  | |- D20 (store_file_data _ _ _) => apply D20_store
  | |- D20 (shutdown _ _) => d20_kp Kp_shutdown
  | |- D20 (abandon _ _) => d20_kp Kp_abandon
  | |- D20 (suspend _ _) => d20_kp Kp_suspend
  | |- D20 (cancel_ _ _) => d20_kp Kp_cancel_
  | |- D20 (fst (handle_fault _ _ _)) => d20_kp Kp_handle_fault
  end.
Ltac d20 := solve_st D20 D20_ext d20_calls.
Ltac pass_d20 := repeat (first [destr_pair_keep | destr_inner]; cbn [fst snd]); try d20.

Lemma D20_check_file_size now size s : D20 s -> D20 (check_file_size now size s).
Proof. intros H. unfold check_file_size. pass_d20. Qed.
Lemma D20_finalize now s : D20 s -> D20 (finalize_receive now s).
Proof.
  intros H. unfold Recv.finalize_receive.
  set (s0 := set_r_dc _ s). assert (H0 : D20 s0) by (unfold s0; d20). clearbody s0. clear H.
  assert (H1 : D20 (fst (if is_file_transfer s0
                        then let '(s1, go) := fr_verify FS cksum now s0 in
                             if go then (fr_store FS fs_write_file s1, true) else (s1, false)
                        else (set_r_fstat FUnreported s0, true)))).
  { destruct (is_file_transfer s0); cbn [fst]; [|d20].
    assert (Hv : D20 (fst (fr_verify FS cksum now s0))) by (unfold fr_verify; pass_d20).
    destruct (fr_verify FS cksum now s0) as [s1 go]. cbn [fst] in Hv.
    destruct go; cbn [fst]; [|exact Hv]. unfold fr_store. pass_d20. }
  destruct (if is_file_transfer s0 then _ else _) as [s2 go2]. cbn [fst] in H1.
  destruct go2; [|exact H1].
  assert (H2 : D20 (fst (fr_rejection now s2))).
  { unfold fr_rejection. destruct (r_fstat s2); cbn [fst]; try exact H1. d20. }
  destruct (fr_rejection now s2) as [s3 go3]. cbn [fst] in H2.
  destruct go3; [|exact H2]. unfold fr_requests. destruct (run_requests _ _ _ _ _ _ _). d20.
Qed.
Lemma D20_check_finished now s : D20 s -> D20 (check_finished now s).
Proof.
  intros H. unfold Recv.check_finished. destr_inner; [|exact H].
  eapply D20_ext; [apply (D20_finalize now s H)|reflexivity|reflexivity].
Qed.

Ltac d20b_calls _ :=
  lazymatch goal with
  | |- D20 (check_file_size _ _ _) => apply D20_check_file_size
  | |- D20 (check_finished _ _) => apply D20_check_finished
  | |- D20 (finalize_receive _ _) => apply D20_finalize
  | _ => d20_calls tt
  end.
Ltac d20b := solve_st D20 D20_ext d20b_calls.
Ltac pass_d20b := repeat (first [destr_pair_keep | destr_inner]; cbn [fst snd]); try d20b.

Lemma D20_process_pdu now p s : D20 s -> D20 (fst (process_pdu now p s)).
Proof.
  intros H. unfold Recv.process_pdu.
  set (s0 := if suspended s then s else upd_inact (c_reset now) s).
  assert (H0 : D20 s0) by (unfold s0; destruct (suspended s); d20). clearbody s0. clear H.
  destruct (cfg_mode (r_cfg s0)); destruct p; cbn [fst]; try exact H0;
    unfold pdu_filedata_acked, pdu_eof_acked, pdu_ack_acked, pdu_metadata_acked, pdu_filedata_unacked,
           pdu_eof_unacked, pdu_ack_unacked, pdu_metadata_unacked, set_metadata, c_timeout_occurred;
    pass_d20b.
Qed.

Theorem D20_rstep now o s : D20 s -> D20 (fst (rstep now o s)).
Proof.
  intros H. unfold Recv.rstep.
  assert (H0 : D20 (set_r_out [] s)) by d20.
  destruct o; cbn [fst].
  - apply D20_process_pdu; exact H0.
  - destruct (has_pdu_to_send _); [|exact H0].
    eapply D20_of_Kp; [apply Kp_send_pdu; apply Kp_refl | exact H0].
  - destruct (until_timeout now _) as [[|?]|]; try exact H0.
    eapply D20_of_Kp; [apply Kp_handle_timeout; apply Kp_refl | exact H0].
  - eapply D20_of_Kp; [apply Kp_cancel; apply Kp_refl | exact H0].
  - eapply D20_of_Kp; [apply Kp_suspend; apply Kp_refl | exact H0].
  - eapply D20_of_Kp; [apply Kp_resume; apply Kp_refl | exact H0].
  - eapply D20_of_Kp; [apply Kp_send_report; apply Kp_refl | exact H0].
  - eapply D20_of_Kp; [apply Kp_shutdown; apply Kp_refl | exact H0].
Qed.

Lemma D20_init now cfg np fs : D20 (r_new now cfg np fs).
Proof. unfold D20, r_new. cbn. auto. Qed.

(* what the progress-carrying outputs carry: the current received_file_size *)
Lemma progress_sites now c (s : rstate) :
  (exists s1, fst (handle_fault now c s) = s1 /\
     In (OInd (IFault c (r_recvd s))) (r_out s1)) /\
  In (OInd (IAbandon (r_cond s) (r_recvd s))) (r_out (abandon now s)) /\
  In (OInd (IResumed (r_recvd s))) (r_out (resume now s)).
Proof.
  splits.
  - eexists. split; [reflexivity|]. unfold handle_fault.
    destruct (handler _ c); cbn [fst]; unfold cancel_, suspend, abandon;
      repeat destr_inner; cbn; auto 6.
  - unfold abandon. cbn. auto.
  - unfold resume. repeat destr_inner; cbn; auto.
Qed.


(* ================= C18: unacknowledged mode is one-way ================= *)
(* nothing but the send arm ever emits a PDU *)
Definition no_pdu (o : out) : Prop := match o with OPdu _ => False | OInd _ => True end.
Definition JN (s : rstate) : Prop := Forall no_pdu (r_out s).
Lemma JN_ext (s s' : rstate) : JN s -> r_out s' = r_out s -> JN s'.
Proof. unfold JN. intros H E. rewrite E. exact H. Qed.
Lemma JN_ind i (s : rstate) : JN s -> JN (emit_ind i s).
Proof. unfold JN. cbn. intros H. constructor; [exact I|assumption]. Qed.
Lemma JN_of_JQ (s : rstate) : JQ s -> JN s.
Proof.
  unfold JQ, JN. intros H. eapply Forall_impl; [|exact H]. intros [p|i]; cbn; auto.
Qed.
Lemma JN_cancel_ now s : JN s -> JN (cancel_ now s).
Proof.
  intros H. unfold cancel_. apply JN_ind.
  destruct (cfg_mode _); [|destruct (closure _)]; (eapply JN_ext; [exact H|reflexivity]).
Qed.
Lemma JN_handle_fault now c s : JN s -> JN (fst (handle_fault now c s)).
Proof.
  intros H. unfold handle_fault.
  assert (H1 : JN (emit_ind (IFault c (r_recvd (set_r_cond c s))) (set_r_cond c s))).
  { apply JN_ind. eapply JN_ext; [exact H|reflexivity]. }
  destruct (handler _ c); cbn [fst]; [apply JN_cancel_ | | | ]; try exact H1.
  - unfold suspend. apply JN_ind. eapply JN_ext; [exact H1|reflexivity].
  - unfold abandon. eapply JN_ext; [apply JN_ind; eapply JN_ext; [exact H1|reflexivity]|reflexivity].
Qed.
Ltac jn_calls _ :=
  lazymatch goal with
  | |- JN (cancel_ _ _) => apply JN_cancel_
  | |- JN (fst (handle_fault _ _ _)) => apply JN_handle_fault
  | |- JN (emit_ind _ _) => apply JN_ind
  | |- JN (abandon _ _) => unfold abandon
  | |- JN (suspend _ _) => unfold suspend
  end.
Ltac jn := solve_st JN JN_ext jn_calls.
Ltac pass_n := repeat (first [destr_pair_keep | destr_inner]; cbn [fst snd]); try jn.

Lemma JN_handle_timeout now s : JN s -> JN (handle_timeout now s).
Proof.
  intros H. unfold handle_timeout.
  assert (H1 : JN (ht_delayed now s)).
  { unfold ht_delayed. destruct (expire_delayed now (r_delayed s)). pass_n. }
  assert (H2 : JN (fst (ht_inactivity now (ht_delayed now s)))).
  { remember (ht_delayed now s) as s1 eqn:E; clear E. unfold ht_inactivity, c_limit_reached. pass_n. }
  destruct (ht_inactivity now (ht_delayed now s)) as [s2 go]. cbn [fst] in H2.
  destruct go; [|exact H2].
  assert (H3 : JN (ht_nak now s2)) by (unfold ht_nak, c_timeout_occurred; pass_n).
  unfold ht_phase. remember (ht_nak now s2) as s3 eqn:E3; clear E3.
  unfold ht_ackphase, c_limit_reached, c_timeout_occurred, set_fin_flag. pass_n.
Qed.

(* the unacknowledged receiver's bookkeeping: nothing is ever queued for transmission except a
   Finished PDU, and that only when the metadata requested closure *)
Definition nak_idle (c : counter) : Prop := c_paused c = true /\ c_occurred c = false.
Definition U18 (s : rstate) : Prop :=
  cfg_mode (r_cfg s) = Unacked /\ r_ack s = None /\ r_naks s = [] /\ r_prompt s = None /\
  nak_idle (t_nak (r_timer s)) /\ (is_some (r_fin s) = true -> closure s = true) /\ r_delayed s = [].

Lemma U18_ext (s s' : rstate) : U18 s -> r_cfg s' = r_cfg s -> r_ack s' = r_ack s -> r_naks s' = r_naks s ->
  r_prompt s' = r_prompt s -> t_nak (r_timer s') = t_nak (r_timer s) -> r_fin s' = r_fin s ->
  r_meta s' = r_meta s -> r_delayed s' = r_delayed s -> U18 s'.
Proof.
  unfold U18, closure. intros (A & B & C & D & E & F & G) E1 E2 E3 E4 E5 E6 E7 E8.
  rewrite E1, E2, E3, E4, E5, E6, E7, E8. splits; auto.
Qed.
(* pausing the idle NAK timer keeps it idle *)
Lemma nak_idle_pause now c : nak_idle c -> nak_idle (c_pause now c).
Proof.
  intros (A & B). unfold nak_idle, c_pause. rewrite (c_update_paused now c A). cbn. auto.
Qed.
Lemma U18_pause_nak now (s s' : rstate) : U18 s -> r_cfg s' = r_cfg s -> r_ack s' = r_ack s -> r_naks s' = r_naks s ->
  r_prompt s' = r_prompt s -> t_nak (r_timer s') = c_pause now (t_nak (r_timer s)) -> r_fin s' = r_fin s ->
  r_meta s' = r_meta s -> r_delayed s' = r_delayed s -> U18 s'.
Proof.
  unfold U18, closure. intros (A & B & C & D & E & F & G) E1 E2 E3 E4 E5 E6 E7 E8.
  rewrite E1, E2, E3, E4, E5, E6, E7, E8. splits; auto. apply nak_idle_pause. exact E.
Qed.

Lemma U18_shutdown now s : U18 s -> U18 (shutdown now s).
Proof. intros H. eapply (U18_pause_nak now s); [exact H | reflexivity ..]. Qed.
Lemma U18_abandon now s : U18 s -> U18 (abandon now s).
Proof. intros H. unfold abandon. apply U18_shutdown. eapply (U18_ext s); [exact H | reflexivity ..]. Qed.
Lemma U18_suspend now s : U18 s -> U18 (suspend now s).
Proof. intros H. unfold suspend. eapply (U18_pause_nak now s); [exact H | reflexivity ..]. Qed.
Lemma U18_cancel_ now s : U18 s -> U18 (cancel_ now s).
Proof.
  intros H. unfold cancel_. destruct H as (A & B & C & D & E & F & G). cbn [r_cfg upd_nak set_r_timer set_r_phase].
  rewrite A. destruct (closure (upd_nak (c_pause now) (set_r_phase RCancelled s))) eqn:Ec.
  - unfold U18, closure in *. cbn in *. splits; auto. repeat apply nak_idle_pause. exact E.
  - unfold U18, closure in *. cbn in *. splits; auto. repeat apply nak_idle_pause. exact E.
Qed.
Lemma U18_handle_fault now c s : U18 s -> U18 (fst (handle_fault now c s)).
Proof.
  intros H. unfold handle_fault.
  assert (H1 : U18 (emit_ind (IFault c (r_recvd (set_r_cond c s))) (set_r_cond c s))).
  { eapply (U18_ext s); [exact H | reflexivity ..]. }
  destruct (handler _ c); cbn [fst];
    [apply U18_cancel_ | apply U18_suspend | | apply U18_abandon]; exact H1.
Qed.


Ltac u18_leaf s0 := eapply (U18_ext s0); [ | reflexivity ..].

Lemma U18_finalize now s : U18 s -> U18 (finalize_receive now s).
Proof.
  intros H. unfold Recv.finalize_receive.
  set (s0 := set_r_dc _ s). assert (H0 : U18 s0) by (unfold s0; u18_leaf s; exact H). clearbody s0. clear H.
  assert (H1 : U18 (fst (if is_file_transfer s0
                        then let '(s1, go) := fr_verify FS cksum now s0 in
                             if go then (fr_store FS fs_write_file s1, true) else (s1, false)
                        else (set_r_fstat FUnreported s0, true)))).
  { destruct (is_file_transfer s0); cbn [fst]; [|u18_leaf s0; exact H0].
    assert (Hv : U18 (fst (fr_verify FS cksum now s0))).
    { unfold fr_verify. destr_inner; cbn [fst]; [u18_leaf s0; exact H0|].
      apply U18_handle_fault. u18_leaf s0. exact H0. }
    destruct (fr_verify FS cksum now s0) as [s1 go]. cbn [fst] in Hv.
    destruct go; cbn [fst]; [|exact Hv]. unfold fr_store. destr_inner; u18_leaf s1; exact Hv. }
  destruct (if is_file_transfer s0 then _ else _) as [s2 go2]. cbn [fst] in H1.
  destruct go2; [|exact H1].
  assert (H2 : U18 (fst (fr_rejection now s2))).
  { unfold fr_rejection. destruct (r_fstat s2); cbn [fst]; try exact H1. apply U18_handle_fault. exact H1. }
  destruct (fr_rejection now s2) as [s3 go3]. cbn [fst] in H2.
  destruct go3; [|exact H2]. unfold fr_requests. destruct (run_requests _ _ _ _ _ _ _). u18_leaf s3. exact H2.
Qed.

Lemma U18_process_pdu now p s : U18 s -> U18 (fst (process_pdu now p s)).
Proof.
  intros H. unfold Recv.process_pdu.
  set (s0 := if suspended s then s else upd_inact (c_reset now) s).
  assert (H0 : U18 s0) by (unfold s0; destruct (suspended s); [|u18_leaf s]; exact H). clearbody s0. clear H.
  destruct H0 as (A & H0'). rewrite A. assert (H0 : U18 s0) by (split; assumption). clear H0'.
  destruct p; cbn [fst]; try exact H0.
  - (* file data *)
    unfold pdu_filedata_unacked, store_file_data. repeat (destr_inner; cbn [fst snd]); try exact H0;
      u18_leaf s0; exact H0.
  - (* EOF *)
    unfold pdu_eof_unacked. destr_inner; [exact H0|]. destr_inner.
    + match goal with |- context [check_file_size now (eof_size e) ?x] =>
        assert (H2 : U18 (check_file_size now (eof_size e) x)) end.
      { unfold check_file_size. destr_inner; [apply U18_handle_fault|]; u18_leaf s0; exact H0. }
      destruct (cfs_go _ _ _); [|exact H2].
      match goal with |- context [finalize_receive now ?x] =>
        assert (H1 : U18 (finalize_receive now x)) end.
      { apply U18_finalize. eapply (U18_ext (check_file_size now (eof_size e) _)); [exact H2 | reflexivity ..]. }
      match goal with |- context [finalize_receive now ?x] =>
        remember (finalize_receive now x) as s1 eqn:E1; clear E1 end.
      destruct (closure s1) eqn:Ec; [|apply U18_shutdown; exact H1].
      destruct H1 as (B1 & B2 & B3 & B4 & B5 & B6 & B7).
      unfold U18, closure in *. cbn. splits; auto.
    + apply U18_cancel_. u18_leaf s0. exact H0.
  - (* ACK *)
    unfold pdu_ack_unacked. repeat (destr_inner; cbn [fst snd]); try exact H0. apply U18_shutdown. exact H0.
  - (* Metadata: the fin clause refers to closure, which reads the metadata *)
    unfold pdu_metadata_unacked, set_metadata. destruct (is_some (r_meta s0)) eqn:Em; [exact H0|].
    destruct H0 as (B1 & B2 & B3 & B4 & B5 & B6 & B7).
    unfold U18, closure in *. cbn. splits; auto. intros Hf. specialize (B6 Hf).
    destruct (r_meta s0); [discriminate|discriminate].
Qed.

(* in unacknowledged mode the send arm can only emit a Finished PDU, and only with closure *)
Definition only_finished (o : out) : Prop :=
  match o with
  | OPdu p => match o_payload p with PFinished _ => True | _ => False end
  | OInd _ => True
  end.

Lemma send_finished_spec now (s : rstate) f : r_fin s = Some (f, true) ->
  send_finished resp_len req_len now s =
  set_r_fin (Some (f, false)) (emit_pdu resp_len req_len (PFinished f) (upd_ack (c_restart now) s)).
Proof.
  intros Ef. unfold send_finished.
  change (r_fin (upd_ack (c_restart now) s)) with (r_fin s). rewrite Ef.
  unfold set_fin_flag.
  change (r_fin (emit_pdu resp_len req_len (PFinished f) (upd_ack (c_restart now) s))) with (r_fin s).
  rewrite Ef. reflexivity.
Qed.
Lemma send_finished_noop now (s : rstate) : fin_flag s = false ->
  send_finished resp_len req_len now s = upd_ack (c_restart now) s.
Proof.
  unfold fin_flag, send_finished. change (r_fin (upd_ack (c_restart now) s)) with (r_fin s).
  destruct (r_fin s) as [[f [|]]|]; intros E; try discriminate; reflexivity.
Qed.

Lemma U18_send_pdu now s : U18 s -> Forall only_finished (r_out s) ->
  U18 (send_pdu resp_len req_len now s) /\ Forall only_finished (r_out (send_pdu resp_len req_len now s)) /\
  (r_out (send_pdu resp_len req_len now s) <> r_out s -> closure s = true).
Proof.
  intros H Ho. destruct H as (A & B & C & D & E & F & G). assert (H : U18 s) by (unfold U18; splits; auto).
  unfold Recv.send_pdu. rewrite D, B, C. cbn [is_some is_nil negb].
  assert (Hfin : fin_flag s = true ->
    U18 (send_finished resp_len req_len now s) /\
    Forall only_finished (r_out (send_finished resp_len req_len now s)) /\
    (r_out (send_finished resp_len req_len now s) <> r_out s -> closure s = true)).
  { unfold fin_flag. destruct (r_fin s) as [[f [|]]|] eqn:Ef; intros Hf; try discriminate.
    rewrite (send_finished_spec now s f Ef). splits.
    - unfold U18, closure in *. cbn. splits; auto.
    - cbn. constructor; [exact I|exact Ho].
    - intros _. apply F. reflexivity. }
  destruct (r_phase s); try (splits; [exact H | exact Ho | congruence]);
    (destruct (fin_flag s) eqn:Eff; [apply Hfin; reflexivity | splits; [exact H | exact Ho | congruence]]).
Qed.

Ltac u18_head :=
  lazymatch goal with
  | |- U18 (abandon _ _) => apply U18_abandon
  | |- U18 (fst (handle_fault _ _ _)) => apply U18_handle_fault
  | |- U18 (shutdown _ _) => apply U18_shutdown
  | |- U18 (cancel_ _ _) => apply U18_cancel_
  | |- _ => idtac
  end.

Lemma U18_set_fin_flag b s : U18 s -> U18 (set_fin_flag b s).
Proof.
  intros H. unfold set_fin_flag. destruct (r_fin s) as [[f b0]|] eqn:Ef; [|exact H].
  destruct H as (A & B & C & D & E & F & G). unfold U18, closure in *. cbn. rewrite Ef in F. splits; auto.
Qed.

Lemma U18_handle_timeout now s : U18 s -> U18 (handle_timeout now s).
Proof.
  intros H. unfold handle_timeout.
  assert (H1 : U18 (ht_delayed now s)).
  { unfold ht_delayed. destruct H as (A & B & C & D & E & F & G). rewrite G. cbn.
    unfold U18, closure. cbn. splits; auto. }
  assert (H2 : U18 (fst (ht_inactivity now (ht_delayed now s)))).
  { remember (ht_delayed now s) as s1 eqn:E1; clear E1. unfold ht_inactivity, c_limit_reached.
    repeat (destr_inner; cbn [fst snd]); u18_head; try (eapply (U18_ext s1); [exact H1 | reflexivity ..]). }
  destruct (ht_inactivity now (ht_delayed now s)) as [s2 go]. cbn [fst] in H2.
  destruct go; [|exact H2].
  assert (H3 : U18 (ht_nak now s2)).
  { (* the NAK timer never runs in unacknowledged mode *)
    destruct H2 as (A & B & C & D & (E1 & E2) & F & G). unfold ht_nak, c_timeout_occurred.
    rewrite (c_update_paused now _ E1). rewrite E2. cbn [fst snd].
    unfold U18, closure, nak_idle. cbn. splits; auto. }
  unfold ht_phase. remember (ht_nak now s2) as s3 eqn:E3; clear E3.
  unfold ht_ackphase. destruct (r_phase s3).
  - exact H3.
  - unfold c_limit_reached. repeat (destr_inner; cbn [fst snd]); u18_head;
      try first [ eapply (U18_ext s3); [exact H3 | reflexivity ..]
                | match goal with |- U18 (upd_ack _ (set_fin_flag ?b ?x)) =>
                    eapply (U18_ext (set_fin_flag b x));
                    [apply U18_set_fin_flag; eapply (U18_ext s3); [exact H3 | reflexivity ..] | reflexivity ..] end ].
  - unfold c_limit_reached. repeat (destr_inner; cbn [fst snd]); u18_head;
      try first [ eapply (U18_ext s3); [exact H3 | reflexivity ..]
                | match goal with |- U18 (upd_ack _ (set_fin_flag ?b ?x)) =>
                    eapply (U18_ext (set_fin_flag b x));
                    [apply U18_set_fin_flag; eapply (U18_ext s3); [exact H3 | reflexivity ..] | reflexivity ..] end ].
Qed.

Lemma U18_resume now s : U18 s -> U18 (resume now s).
Proof.
  intros H. unfold resume. destruct H as (A & H'). assert (H : U18 s) by (split; assumption).
  repeat (destr_inner; cbn [fst snd]);
    try (eapply (U18_ext s); [exact H | reflexivity ..]).
  all: exfalso; first [ match goal with E : cfg_mode _ = Acked |- _ => cbn in E; congruence end
                      | match goal with E : false && _ = true |- _ => discriminate E end ].
Qed.

(* C18, receiver: in unacknowledged mode, whatever the operation, the only PDU the transaction
   can emit is a Finished PDU, and only if the received metadata requested closure *)
Theorem U18_rstep now o s : U18 s ->
  let s' := fst (rstep now o s) in
  U18 s' /\ Forall only_finished (r_out s') /\
  (Exists (fun x => ~ no_pdu x) (r_out s') -> closure s = true).
Proof.
  intros H. cbn zeta. unfold Recv.rstep.
  assert (H0 : U18 (set_r_out [] s)) by (eapply (U18_ext s); [exact H | reflexivity ..]).
  assert (Hn0 : JN (set_r_out [] s)) by (unfold JN; cbn; constructor).
  assert (Hjn : forall s' : rstate, JN s' ->
            Forall only_finished (r_out s') /\ (Exists (fun x => ~ no_pdu x) (r_out s') -> closure s = true)).
  { intros s' Hs'. split.
    - eapply Forall_impl; [|exact Hs']. intros [p|i]; cbn; tauto.
    - intros Hex. exfalso. apply Exists_exists in Hex as (x & Hin & Hx). unfold JN in Hs'.
      rewrite Forall_forall in Hs'. apply Hx. apply Hs'. exact Hin. }
  destruct o; cbn [fst].
  - split; [apply U18_process_pdu; exact H0|]. apply Hjn. apply JN_of_JQ. apply JQ_process_pdu.
    unfold JQ. cbn. constructor.
  - destruct (has_pdu_to_send _).
    + destruct (U18_send_pdu now (set_r_out [] s) H0) as (A & B & C); [cbn; constructor|].
      splits; auto. intros Hex. apply C. cbn. intros E. rewrite E in Hex. inversion Hex.
    + split; [exact H0|]. apply Hjn. exact Hn0.
  - destruct (until_timeout now _) as [[|?]|]; try (split; [exact H0|apply Hjn; exact Hn0]).
    split; [|apply Hjn; apply JN_handle_timeout; exact Hn0].
    apply U18_handle_timeout. exact H0.
  - split; [|apply Hjn; unfold cancel; apply JN_cancel_; eapply JN_ext; [exact Hn0|reflexivity]].
    unfold cancel. apply U18_cancel_. eapply (U18_ext (set_r_out [] s)); [exact H0 | reflexivity ..].
  - split; [apply U18_suspend; exact H0|]. apply Hjn. unfold suspend. apply JN_ind. eapply JN_ext; [exact Hn0|reflexivity].
  - split; [apply U18_resume; exact H0|]. apply Hjn. unfold resume.
    repeat (destr_inner; cbn [fst snd]); jn.
  - split; [unfold send_report; eapply (U18_ext (set_r_out [] s)); [exact H0 | reflexivity ..]|].
    apply Hjn. unfold send_report. apply JN_ind. exact Hn0.
  - split; [apply U18_shutdown; exact H0|]. apply Hjn. eapply JN_ext; [exact Hn0|reflexivity].
Qed.


(* the delivery code a finalisation reports: Complete exactly when the metadata and (for a
   file transfer) every byte of [0, file size) have been received *)
Lemma dc_handle_fault now c (s : rstate) : r_dc (fst (handle_fault now c s)) = r_dc s.
Proof.
  unfold handle_fault. destruct (handler _ c); cbn [fst]; try reflexivity.
  unfold cancel_. destruct (cfg_mode _); [|destruct (closure _)]; reflexivity.
Qed.
Theorem finalize_dc now (s : rstate) :
  r_dc (finalize_receive now s) = if delivery_complete s then DComplete else DIncomplete.
Proof.
  unfold Recv.finalize_receive.
  set (v := if delivery_complete s then DComplete else DIncomplete).
  set (s0 := set_r_dc v s). assert (H0 : r_dc s0 = v) by reflexivity. clearbody s0.
  assert (H1 : r_dc (fst (if is_file_transfer s0
                        then let '(s1, go) := fr_verify FS cksum now s0 in
                             if go then (fr_store FS fs_write_file s1, true) else (s1, false)
                        else (set_r_fstat FUnreported s0, true))) = v).
  { destruct (is_file_transfer s0); cbn [fst]; [|exact H0].
    assert (Hv : r_dc (fst (fr_verify FS cksum now s0)) = v).
    { unfold fr_verify. destr_inner; cbn [fst]; [exact H0|]. rewrite dc_handle_fault. exact H0. }
    destruct (fr_verify FS cksum now s0) as [s1 go]. cbn [fst] in Hv.
    destruct go; cbn [fst]; [|exact Hv]. unfold fr_store. destr_inner; exact Hv. }
  destruct (if is_file_transfer s0 then _ else _) as [s2 go2]. cbn [fst] in H1.
  destruct go2; [|exact H1].
  assert (H2 : r_dc (fst (fr_rejection now s2)) = v).
  { unfold fr_rejection. destruct (r_fstat s2); cbn [fst]; try exact H1. rewrite dc_handle_fault. exact H1. }
  destruct (fr_rejection now s2) as [s3 go3]. cbn [fst] in H2.
  destruct go3; [|exact H2]. unfold fr_requests. destruct (run_requests _ _ _ _ _ _ _). exact H2.
Qed.


(* ================= C08: the NAK queue and the NAK PDUs ================= *)
Definition wf_req (r : N * N) : Prop := (fst r = 0 /\ snd r = 0) \/ fst r < snd r.
Definition marker_free (l : list (N * N)) : Prop := Forall (fun r => fst r < snd r) l.

(* the queue holds only non-empty ranges and the 0-0 marker, the marker only while the
   metadata is missing; the segment list is well-formed *)
Definition N8 (s : rstate) : Prop :=
  Forall wf_req (r_naks s) /\ (is_some (r_meta s) = true -> marker_free (r_naks s)) /\ Inv (r_segs s).

Lemma N8_ext (s s' : rstate) : N8 s -> r_naks s' = r_naks s -> r_meta s' = r_meta s -> r_segs s' = r_segs s -> N8 s'.
Proof. unfold N8. intros (A & B & C) E1 E2 E3. rewrite E1, E2, E3. auto. Qed.

Lemma gaps_marker_free v a b : Inv v -> marker_free (gaps v a b).
Proof.
  intros Hi. destruct (gaps_spec v a b Hi) as (G & _ & _). unfold marker_free.
  induction (gaps v a b) as [|[x y] t IH]; [constructor|].
  apply Inv_cons in G as (Hxy & _ & Ht). constructor; [exact Hxy|auto].
Qed.
Lemma marker_free_wf l : marker_free l -> Forall wf_req l.
Proof. unfold marker_free. intros H. eapply Forall_impl; [|exact H]. intros r Hr. right. exact Hr. Qed.

Lemma N8_get_all_naks (s : rstate) : Inv (r_segs s) ->
  Forall wf_req (get_all_naks s) /\ (is_some (r_meta s) = true -> marker_free (get_all_naks s)).
Proof.
  intros Hi. unfold get_all_naks.
  pose proof (gaps_marker_free (r_segs s) 0 (match r_fsize s with Some f => f | None => end_or_0 (r_segs s) end) Hi) as Hg.
  destruct (is_some (r_meta s)); cbn [app].
  - split; [apply marker_free_wf; exact Hg|intros _; exact Hg].
  - split; [|intros E; discriminate]. constructor; [left; auto|apply marker_free_wf; exact Hg].
Qed.

(* setting the queue to the full list of what is missing *)
Lemma N8_set_all (s0 s : rstate) : N8 s0 -> r_meta s = r_meta s0 -> r_segs s = r_segs s0 ->
  N8 (set_r_naks (get_all_naks s) s).
Proof.
  intros (_ & _ & C) E2 E3. unfold N8. cbn [r_naks r_meta r_segs set_r_naks].
  destruct (N8_get_all_naks s) as (G1 & G2); [rewrite E3; exact C|].
  splits; auto. rewrite E3. exact C.
Qed.

Lemma naks_cancel_ now (s : rstate) : r_naks (cancel_ now s) = r_naks s /\ r_meta (cancel_ now s) = r_meta s /\ r_segs (cancel_ now s) = r_segs s.
Proof. unfold cancel_. destruct (cfg_mode _); [|destruct (closure _)]; cbn; auto. Qed.
Lemma naks_handle_fault now c (s : rstate) :
  r_naks (fst (handle_fault now c s)) = r_naks s /\ r_meta (fst (handle_fault now c s)) = r_meta s /\
  r_segs (fst (handle_fault now c s)) = r_segs s.
Proof.
  unfold handle_fault. destruct (handler _ c); cbn [fst]; try (cbn; auto; fail).
  destruct (naks_cancel_ now (emit_ind (IFault c (r_recvd (set_r_cond c s))) (set_r_cond c s))) as (A & B & C).
  rewrite A, B, C. cbn. auto.
Qed.
Lemma N8_handle_fault now c s : N8 s -> N8 (fst (handle_fault now c s)).
Proof. intros H. destruct (naks_handle_fault now c s) as (A & B & C). eapply N8_ext; eassumption. Qed.
Lemma N8_cancel_ now s : N8 s -> N8 (cancel_ now s).
Proof. intros H. destruct (naks_cancel_ now s) as (A & B & C). eapply N8_ext; eassumption. Qed.

Ltac n8_calls _ :=
  lazymatch goal with
  | |- N8 (cancel_ _ _) => apply N8_cancel_
  | |- N8 (fst (handle_fault _ _ _)) => apply N8_handle_fault
  | |- N8 (abandon _ _) => unfold abandon
  | |- N8 (suspend _ _) => unfold suspend
  end.
Ltac n8 := solve_st N8 N8_ext n8_calls.

Lemma in_skipn {A} (x : A) n l : In x (skipn n l) -> In x l.
Proof. revert l. induction n as [|n IH]; intros l H; [exact H|]. destruct l; [exact H|]. right. apply IH. exact H. Qed.

(* a suffix / prefix of a good queue is good *)
Lemma N8_sub (s s' : rstate) : N8 s -> (forall r, In r (r_naks s') -> In r (r_naks s)) ->
  r_meta s' = r_meta s -> r_segs s' = r_segs s -> N8 s'.
Proof.
  unfold N8, marker_free. intros (A & B & C) Hsub E2 E3. rewrite E2, E3. splits; auto.
  - rewrite Forall_forall in *. auto.
  - intros Hm. specialize (B Hm). rewrite Forall_forall in *. auto.
Qed.

Lemma N8_send_naks now s : N8 s -> N8 (send_naks resp_len req_len now s).
Proof.
  intros H. unfold send_naks, c_limit_reached.
  repeat (first [destr_pair_keep | destr_inner]; cbn [fst snd]); try n8.
  all: match goal with |- N8 (emit_pdu _ _ _ (set_r_naks (skipn ?n ?l) ?x)) =>
         assert (Hx : N8 x) by n8;
         eapply (N8_sub x); [exact Hx | | reflexivity | reflexivity];
         cbn; intros r Hr; apply (in_skipn _ _ _ Hr) end.
Qed.


Lemma N8_app (s s' : rstate) l : N8 s -> r_naks s' = r_naks s ++ l -> marker_free l ->
  r_meta s' = r_meta s -> r_segs s' = r_segs s -> N8 s'.
Proof.
  unfold N8, marker_free. intros (A & B & C) E1 Hl E2 E3. rewrite E1, E2, E3. splits; auto.
  - apply Forall_app. split; [exact A|apply marker_free_wf; exact Hl].
  - intros Hm. apply Forall_app. split; [apply B; exact Hm|exact Hl].
Qed.

Lemma N8_store off d s : N8 s -> N8 (store_file_data off d s).
Proof.
  intros (A & B & C). unfold store_file_data. destruct (is_nil d) eqn:En; [unfold N8; splits; assumption|].
  cbn [r_segs set_r_staged].
  destruct (ins off (off + N.of_nat (length d)) (r_segs s)) as [v n] eqn:E.
  assert (Hlt : off < off + N.of_nat (length d)) by (destruct d; [discriminate|]; cbn [length]; lia).
  destruct (ins_ok _ _ _ Hlt C _ _ E) as (H1 & _).
  unfold N8. cbn. splits; auto.
Qed.

Lemma N8_resume now s : N8 s -> N8 (resume now s).
Proof.
  intros H. unfold resume. repeat (destr_inner; cbn [fst snd]); try n8.
  all: match goal with |- N8 (emit_ind _ (set_r_state _ (set_r_naks (get_all_naks ?x) ?x))) =>
         eapply (N8_ext (set_r_naks (get_all_naks x) x)); [apply (N8_set_all s); [exact H|reflexivity|reflexivity] | reflexivity ..] end.
Qed.

Lemma N8_answer_prompt now s : N8 s -> N8 (answer_prompt resp_len req_len now s).
Proof.
  intros H. unfold answer_prompt. destruct (r_prompt s) as [[|]|]; try n8.
  apply N8_send_naks. apply (N8_set_all s); [exact H|reflexivity|reflexivity].
Qed.

Lemma N8_send_pdu now s : N8 s -> N8 (send_pdu resp_len req_len now s).
Proof.
  intros H. unfold Recv.send_pdu.
  pose proof (N8_answer_prompt now s H). pose proof (N8_send_naks now s H).
  assert (N8 (send_ack_eof resp_len req_len s)) by (unfold send_ack_eof; destruct (r_ack s); n8).
  assert (N8 (send_finished resp_len req_len now s)).
  { unfold send_finished, set_fin_flag. repeat (destr_inner; cbn [fst snd]); n8. }
  repeat destr_inner; auto.
Qed.

Lemma N8_ht_delayed now s : N8 s -> N8 (ht_delayed now s).
Proof.
  intros H. unfold ht_delayed. destruct (expire_delayed now (r_delayed s)) as [ex rest].
  destruct (is_nil ex); [n8|].
  destruct H as (A & B & C). unfold N8. cbn [r_naks r_meta r_segs set_r_naks set_r_delayed].
  assert (Hg : marker_free (flat_map (fun w => gaps (r_segs s) (fst w)
                 (match r_fsize s with Some f => N.min (snd w) f | None => snd w end)) ex)).
  { unfold marker_free. apply Forall_forall. intros x Hx. apply in_flat_map in Hx as (w & _ & Hw).
    pose proof (gaps_marker_free (r_segs s) (fst w) (match r_fsize s with Some f => N.min (snd w) f | None => snd w end) C) as Hm.
    unfold marker_free in Hm. rewrite Forall_forall in Hm. auto. }
  splits; auto.
  - apply Forall_app. split; [|apply marker_free_wf; exact Hg].
    apply Forall_app. split; [exact A|]. destruct (is_some (r_meta s)); constructor; [left; auto|constructor].
  - intros Hm. unfold marker_free. apply Forall_app. split; [|exact Hg]. apply Forall_app. split; [apply B; exact Hm|].
    rewrite Hm. constructor.
Qed.

Lemma N8_ht_inactivity now s : N8 s -> N8 (fst (ht_inactivity now s)).
Proof. intros H. unfold ht_inactivity, c_limit_reached. repeat (first [destr_pair_keep | destr_inner]; cbn [fst snd]); n8. Qed.

Lemma N8_ht_nak now s : N8 s -> N8 (ht_nak now s).
Proof.
  intros H. unfold ht_nak.
  destruct (c_timeout_occurred now (t_nak (r_timer s))) as [c occ].
  assert (H1 : N8 (upd_nak (fun _ => c) s)) by (eapply (N8_ext s); [exact H|reflexivity ..]).
  destruct occ; [|exact H1].
  match goal with |- N8 (if is_nil (r_naks ?y) then _ else _) => assert (H2 : N8 y) end.
  { destruct (_ && _); [|exact H1]. apply (N8_set_all s); [exact H|reflexivity|reflexivity]. }
  destruct (is_nil _); [|exact H2]. eapply N8_ext; [exact H2|reflexivity ..].
Qed.
Lemma N8_ht_phase now s : N8 s -> N8 (ht_phase now s).
Proof.
  intros H0. unfold ht_phase. pose proof (N8_ht_nak now s H0) as H. remember (ht_nak now s) as s1 eqn:E; clear E.
  unfold ht_ackphase, c_limit_reached, c_timeout_occurred, set_fin_flag.
  repeat (first [destr_pair_keep | destr_inner]; cbn [fst snd]); try n8.
Qed.

Lemma N8_handle_timeout now s : N8 s -> N8 (handle_timeout now s).
Proof.
  intros H. unfold handle_timeout.
  pose proof (N8_ht_inactivity now _ (N8_ht_delayed now s H)) as H1.
  destruct (ht_inactivity now (ht_delayed now s)) as [s1 go]. cbn [fst] in H1.
  destruct go; [apply N8_ht_phase|]; exact H1.
Qed.


Lemma N8_check_file_size now size s : N8 s -> N8 (check_file_size now size s).
Proof. intros H. unfold check_file_size. destr_inner; [apply N8_handle_fault|]; exact H. Qed.

Lemma N8_finalize now s : N8 s -> N8 (finalize_receive now s).
Proof.
  intros H. unfold Recv.finalize_receive.
  set (s0 := set_r_dc _ s). assert (H0 : N8 s0) by (unfold s0; n8). clearbody s0. clear H.
  assert (H1 : N8 (fst (if is_file_transfer s0
                        then let '(s1, go) := fr_verify FS cksum now s0 in
                             if go then (fr_store FS fs_write_file s1, true) else (s1, false)
                        else (set_r_fstat FUnreported s0, true)))).
  { destruct (is_file_transfer s0); cbn [fst]; [|n8].
    assert (Hv : N8 (fst (fr_verify FS cksum now s0))).
    { unfold fr_verify. destr_inner; cbn [fst]; [n8|]. apply N8_handle_fault. n8. }
    destruct (fr_verify FS cksum now s0) as [s1 go]. cbn [fst] in Hv.
    destruct go; cbn [fst]; [|exact Hv]. unfold fr_store. destr_inner; n8. }
  destruct (if is_file_transfer s0 then _ else _) as [s2 go2]. cbn [fst] in H1.
  destruct go2; [|exact H1].
  assert (H2 : N8 (fst (fr_rejection now s2))).
  { unfold fr_rejection. destruct (r_fstat s2); cbn [fst]; try exact H1. apply N8_handle_fault. exact H1. }
  destruct (fr_rejection now s2) as [s3 go3]. cbn [fst] in H2.
  destruct go3; [|exact H2]. unfold fr_requests. destruct (run_requests _ _ _ _ _ _ _). n8.
Qed.

Lemma N8_check_finished now s : N8 s -> N8 (check_finished now s).
Proof.
  intros H. unfold Recv.check_finished. destr_inner; [|exact H].
  eapply N8_ext; [apply (N8_finalize now s H)|reflexivity ..].
Qed.

Lemma filter_marker l : Forall wf_req l ->
  marker_free (filter (fun x : N * N => negb ((fst x =? 0) && (snd x =? 0))) l).
Proof.
  intros H. unfold marker_free. apply Forall_forall. intros x Hx. apply filter_In in Hx as (Hin & Hf).
  rewrite Forall_forall in H. destruct (H x Hin) as [[A B]|Hlt]; [|exact Hlt].
  rewrite A, B in Hf. discriminate.
Qed.

Ltac n8b_calls _ :=
  lazymatch goal with
  | |- N8 (check_file_size _ _ _) => apply N8_check_file_size
  | |- N8 (check_finished _ _) => apply N8_check_finished
  | |- N8 (store_file_data _ _ _) => apply N8_store
  | _ => n8_calls tt
  end.
Ltac n8b := solve_st N8 N8_ext n8b_calls.

(* N8 for the acknowledged-mode PDU handlers *)
Lemma N8_process_pdu now p s : cfg_mode (r_cfg s) = Acked -> N8 s -> N8 (fst (process_pdu now p s)).
Proof.
  intros Hm H. unfold Recv.process_pdu.
  set (s0 := if suspended s then s else upd_inact (c_reset now) s).
  assert (H0 : N8 s0) by (unfold s0; destruct (suspended s); n8).
  assert (Hm0 : cfg_mode (r_cfg s0) = Acked) by (unfold s0; destruct (suspended s); exact Hm).
  clearbody s0. clear H Hm. rewrite Hm0.
  destruct p; cbn [fst]; try exact H0.
  - (* file data *)
    unfold pdu_filedata_acked. destr_inner; [exact H0|]. apply N8_check_finished.
    pose proof (N8_store offset data s0 H0) as H1.
    set (s1 := emit_ind (IFileSegmentRecv offset (N.of_nat (length data))) (store_file_data offset data s0)).
    assert (H2 : N8 s1) by (unfold s1; n8). clearbody s1. clear H1.
    destruct (r_nakproc s1); [|exact H2].
    destruct (eof_received s1); [exact H2|]. unfold c_timeout_occurred. cbn [fst snd].
    destruct (c_occurred _).
    + match goal with |- N8 (upd_nak _ (set_r_naks (get_all_naks ?x) ?x)) =>
        eapply (N8_ext (set_r_naks (get_all_naks x) x)); [apply (N8_set_all s1); [exact H2|reflexivity|reflexivity] | reflexivity ..] end.
    + destruct (N.ltb_spec (match seg_end (r_segs s0) with Some e => e | None => 0 end) offset) as [Hlt|Hge]; [|n8].
      destruct (delay =? 0); [|n8].
      eapply (N8_app s1); [exact H2 | reflexivity | | reflexivity | reflexivity].
      unfold marker_free. constructor; [exact Hlt|constructor].
  - (* EOF *)
    unfold pdu_eof_acked. destr_inner; [n8|]. destr_inner; [|apply N8_cancel_; n8].
    match goal with |- context [check_finished now ?x] =>
      assert (H1 : N8 (check_finished now x)) by n8b;
      remember (check_finished now x) as s1 eqn:E1; clear E1 end.
    destruct (has_naks s1); [|exact H1]. destruct (_ =? 0); [|n8].
    apply (N8_set_all s1); [exact H1|reflexivity|reflexivity].
  - unfold pdu_ack_acked. repeat (destr_inner; cbn [fst snd]); try exact H0; n8.
  - (* Metadata: the queued 0-0 request is dropped *)
    unfold pdu_metadata_acked, set_metadata. destr_inner; [exact H0|]. apply N8_check_finished.
    destruct H0 as (A & B & C). unfold N8. cbn [r_naks r_meta r_segs set_r_naks set_r_meta emit_ind set_r_out].
    splits; auto.
    + apply marker_free_wf. apply filter_marker. exact A.
    + intros _. apply filter_marker. exact A.
Qed.

Theorem N8_rstep now o s : cfg_mode (r_cfg s) = Acked -> N8 s -> N8 (fst (rstep now o s)).
Proof.
  intros Hm H. unfold Recv.rstep.
  assert (H0 : N8 (set_r_out [] s)) by n8.
  destruct o; cbn [fst].
  - apply N8_process_pdu; [exact Hm|exact H0].
  - destruct (has_pdu_to_send _); [apply N8_send_pdu|]; exact H0.
  - destruct (until_timeout now _) as [[|?]|]; [apply N8_handle_timeout| |]; exact H0.
  - unfold cancel. apply N8_cancel_. n8.
  - unfold suspend. n8.
  - apply N8_resume; exact H0.
  - unfold send_report. n8.
  - n8.
Qed.

(* ---- the NAK PDU that send_naks builds ---- *)
Lemma min_list_le l d x : In x l -> min_list l d <= x.
Proof.
  destruct l as [|y t]; [intros []|]. cbn [min_list].
  assert (G : forall t a, fold_left N.min t a <= a /\ (forall z, In z t -> fold_left N.min t a <= z)).
  { induction t0 as [|z t0 IH]; intros a; cbn [fold_left]; [split; [lia|intros ? []]|].
    destruct (IH (N.min a z)) as (I1 & I2). split; [lia|]. intros w [Hw|Hw]; [subst; lia|auto]. }
  destruct (G t y) as (G1 & G2). intros [Hx|Hx]; [subst; exact G1|auto].
Qed.
Lemma max_list_ge l d x : In x l -> x <= max_list l d.
Proof.
  destruct l as [|y t]; [intros []|]. cbn [max_list].
  assert (G : forall t a, a <= fold_left N.max t a /\ (forall z, In z t -> z <= fold_left N.max t a)).
  { induction t0 as [|z t0 IH]; intros a; cbn [fold_left]; [split; [lia|intros ? []]|].
    destruct (IH (N.max a z)) as (I1 & I2). split; [lia|]. intros w [Hw|Hw]; [subst; lia|auto]. }
  destruct (G t y) as (G1 & G2). intros [Hx|Hx]; [subst; exact G1|auto].
Qed.

(* every request of a NAK built from a queue prefix lies inside the announced scope, and the
   PDU's data field fits the segment size (+1 directive code octet) *)
Theorem nak_scope_contains reqs d0 d1 r : In r reqs ->
  min_list (map fst reqs) d0 <= fst r /\ snd r <= max_list (map snd reqs) d1.
Proof.
  intros H. split; [apply min_list_le|apply max_list_ge]; apply in_map; exact H.
Qed.

Theorem nak_fits (cfg : config) n : 2 * fss cfg <= cfg_seg cfg -> n <= max_nak_num cfg ->
  1 + 2 * fss cfg + n * (2 * fss cfg) <= cfg_seg cfg + 1.
Proof.
  unfold max_nak_num. intros Hs Hn.
  assert (Hf : 0 < 2 * fss cfg) by (unfold fss; destruct (cfg_large cfg); lia).
  destruct (TimerP.div_bounds (cfg_seg cfg - 2 * fss cfg) (2 * fss cfg) Hf) as (Hq & _).
  assert (n * (2 * fss cfg) <= (cfg_seg cfg - 2 * fss cfg) / (2 * fss cfg) * (2 * fss cfg)) by (apply N.mul_le_mono_r; exact Hn).
  generalize dependent (n * (2 * fss cfg)). generalize dependent ((cfg_seg cfg - 2 * fss cfg) / (2 * fss cfg) * (2 * fss cfg)).
  intros. lia.
Qed.

(* ---- exactness: what get_all_naks asks for (sent after EOF with zero delay, at every
   NAK-timer expiry, on resume and in answer to a prompt) ---- *)
Theorem get_all_naks_exact (s : rstate) fsz : Inv (r_segs s) -> r_fsize s = Some fsz ->
  get_all_naks s = (if is_some (r_meta s) then [] else [(0, 0)]) ++ gaps (r_segs s) 0 fsz /\
  (forall x, covered (gaps (r_segs s) 0 fsz) x <-> (x < fsz /\ ~ covered (r_segs s) x)) /\
  (forall a b, In (a, b) (gaps (r_segs s) 0 fsz) -> a < b /\ b <= fsz).
Proof.
  intros Hi Hf. unfold get_all_naks. rewrite Hf. split; [reflexivity|].
  destruct (gaps_spec (r_segs s) 0 fsz Hi) as (G1 & G2 & G3). split.
  - intros x. rewrite G3. split; intros (A & B); split; auto; lia.
  - intros a b Hin. destruct (G2 a b Hin) as (_ & Hb). split; [|exact Hb].
    pose proof (gaps_marker_free (r_segs s) 0 fsz Hi) as Hm. unfold marker_free in Hm.
    rewrite Forall_forall in Hm. apply (Hm (a, b) Hin).
Qed.

(* ---- deferred procedure: nothing is queued before the EOF unless a prompt was received ---- *)
Definition DF (s : rstate) : Prop :=
  is_immediate (r_nakproc s) = false /\ r_fsize s = None /\ r_prompt s = None /\ r_naks s = [] /\ r_delayed s = [] /\
  nak_idle (t_nak (r_timer s)).


Lemma DF_ext (s s' : rstate) : DF s -> r_nakproc s' = r_nakproc s -> r_fsize s' = r_fsize s ->
  r_prompt s' = r_prompt s -> r_naks s' = r_naks s -> r_delayed s' = r_delayed s ->
  t_nak (r_timer s') = t_nak (r_timer s) -> DF s'.
Proof. unfold DF. intros (A & B & C & D & E & F) E1 E2 E3 E4 E5 E6. rewrite E1, E2, E3, E4, E5, E6. splits; auto. Qed.
Lemma DF_pause now (s s' : rstate) : DF s -> r_nakproc s' = r_nakproc s -> r_fsize s' = r_fsize s ->
  r_prompt s' = r_prompt s -> r_naks s' = r_naks s -> r_delayed s' = r_delayed s ->
  t_nak (r_timer s') = c_pause now (t_nak (r_timer s)) -> DF s'.
Proof.
  unfold DF. intros (A & B & C & D & E & F) E1 E2 E3 E4 E5 E6. rewrite E1, E2, E3, E4, E5, E6. splits; auto.
  apply nak_idle_pause. exact F.
Qed.
Lemma DF_shutdown now s : DF s -> DF (shutdown now s).
Proof. intros H. eapply (DF_pause now s); [exact H | reflexivity ..]. Qed.
Lemma DF_abandon now s : DF s -> DF (abandon now s).
Proof. intros H. unfold abandon. apply DF_shutdown. eapply (DF_ext s); [exact H | reflexivity ..]. Qed.
Lemma DF_suspend now s : DF s -> DF (suspend now s).
Proof. intros H. unfold suspend. eapply (DF_pause now s); [exact H | reflexivity ..]. Qed.
Lemma DF_cancel_ now s : DF s -> DF (cancel_ now s).
Proof.
  intros (A & B & C & D & E & F). destruct (naks_cancel_ now s) as (N1 & _ & _).
  unfold DF. rewrite N1. unfold cancel_.
  destruct (cfg_mode _); [|destruct (closure _)]; cbn; splits; auto; repeat apply nak_idle_pause; exact F.
Qed.
Lemma DF_handle_fault now c s : DF s -> DF (fst (handle_fault now c s)).
Proof.
  intros H. unfold handle_fault.
  assert (H1 : DF (emit_ind (IFault c (r_recvd (set_r_cond c s))) (set_r_cond c s))) by (eapply (DF_ext s); [exact H | reflexivity ..]).
  destruct (handler _ c); cbn [fst]; [apply DF_cancel_ | apply DF_suspend | | apply DF_abandon]; exact H1.
Qed.
Ltac df_head :=
  lazymatch goal with
  | |- DF (abandon _ _) => apply DF_abandon
  | |- DF (fst (handle_fault _ _ _)) => apply DF_handle_fault
  | |- DF (shutdown _ _) => apply DF_shutdown
  | |- DF (cancel_ _ _) => apply DF_cancel_
  | |- DF (suspend _ _) => apply DF_suspend
  | |- _ => idtac
  end.
Ltac df_leaf s0 H0 := df_head; try (eapply (DF_ext s0); [exact H0 | reflexivity ..]).

Lemma DF_finalize now s : DF s -> DF (finalize_receive now s).
Proof.
  intros H. unfold Recv.finalize_receive.
  set (s0 := set_r_dc _ s). assert (H0 : DF s0) by (unfold s0; eapply (DF_ext s); [exact H | reflexivity ..]). clearbody s0. clear H.
  assert (H1 : DF (fst (if is_file_transfer s0
                        then let '(s1, go) := fr_verify FS cksum now s0 in
                             if go then (fr_store FS fs_write_file s1, true) else (s1, false)
                        else (set_r_fstat FUnreported s0, true)))).
  { destruct (is_file_transfer s0); cbn [fst]; [|df_leaf s0 H0].
    assert (Hv : DF (fst (fr_verify FS cksum now s0))).
    { unfold fr_verify. destr_inner; cbn [fst]; df_leaf s0 H0. }
    destruct (fr_verify FS cksum now s0) as [s1 go]. cbn [fst] in Hv.
    destruct go; cbn [fst]; [|exact Hv]. unfold fr_store. destr_inner; df_leaf s1 Hv. }
  destruct (if is_file_transfer s0 then _ else _) as [s2 go2]. cbn [fst] in H1.
  destruct go2; [|exact H1].
  assert (H2 : DF (fst (fr_rejection now s2))).
  { unfold fr_rejection. destruct (r_fstat s2); cbn [fst]; try exact H1. apply DF_handle_fault. exact H1. }
  destruct (fr_rejection now s2) as [s3 go3]. cbn [fst] in H2.
  destruct go3; [|exact H2]. unfold fr_requests. destruct (run_requests _ _ _ _ _ _ _). df_leaf s3 H2.
Qed.

(* before the EOF check_finished does nothing *)
Lemma check_finished_no_eof now (s : rstate) : r_fsize s = None -> check_finished now s = s.
Proof. intros H. unfold Recv.check_finished, eof_received. rewrite H. cbn. rewrite !andb_false_r. reflexivity. Qed.

Definition no_nak (o : out) : Prop :=
  match o with OPdu p => match o_payload p with PNakP _ => False | _ => True end | OInd _ => True end.

(* C08, deferred procedure: as long as neither the EOF nor a prompt has been received, every
   operation keeps the queue empty and emits no NAK PDU *)
Theorem DF_rstep now o s : DF s ->
  (forall q, o <> RPdu (PPrompt q)) -> (forall e, o <> RPdu (PEof e)) ->
  DF (fst (rstep now o s)) /\ Forall no_nak (r_out (fst (rstep now o s))).
Proof.
  intros H Hq He. unfold Recv.rstep.
  assert (H0 : DF (set_r_out [] s)) by (eapply (DF_ext s); [exact H | reflexivity ..]).
  destruct o; cbn [fst].
  - (* a received PDU: no PDU is emitted at all *)
    split; [|eapply Forall_impl; [|apply JQ_process_pdu; unfold JQ; cbn; constructor]; intros [x|x]; cbn; tauto].
    unfold Recv.process_pdu.
    set (s0 := if suspended (set_r_out [] s) then set_r_out [] s else upd_inact (c_reset now) (set_r_out [] s)).
    assert (H1 : DF s0) by (unfold s0; destruct (suspended _); [|eapply (DF_ext (set_r_out [] s)); [|reflexivity ..]]; exact H0).
    clearbody s0.
    destruct H1 as (A & B & C & D & E & F). assert (H1 : DF s0) by (unfold DF; splits; auto).
    destruct (cfg_mode (r_cfg s0)); destruct p; cbn [fst]; try exact H1;
      try (exfalso; eapply He; reflexivity); try (exfalso; eapply Hq; reflexivity).
    + (* file data, acknowledged, deferred: nothing is queued *)
      unfold pdu_filedata_acked. destr_inner; [exact H1|].
      assert (Hst : DF (store_file_data offset data s0) /\ r_nakproc (store_file_data offset data s0) = r_nakproc s0 /\
                    r_fsize (store_file_data offset data s0) = None).
      { unfold store_file_data. destruct (is_nil data); [splits; auto|].
        destruct (ins _ _ _). splits; [eapply (DF_ext s0); [exact H1 | reflexivity ..] | reflexivity | exact B]. }
      destruct Hst as (S1 & S2 & S3). remember (store_file_data offset data s0) as s1 eqn:E1. clear E1.
      rewrite check_finished_no_eof.
      * cbn [r_nakproc emit_ind set_r_out]. rewrite S2.
        destruct (r_nakproc s0); [cbn in A; discriminate|]. eapply (DF_ext s1); [exact S1 | reflexivity ..].
      * cbn [r_nakproc emit_ind set_r_out]. rewrite S2.
        destruct (r_nakproc s0); [cbn in A; discriminate|]. exact S3.
    + unfold pdu_ack_acked. repeat (destr_inner; cbn [fst snd]); try exact H1.
      all: apply DF_shutdown; eapply (DF_ext s0); [exact H1 | reflexivity ..].
    + unfold pdu_metadata_acked, set_metadata. destr_inner; [exact H1|].
      rewrite check_finished_no_eof by exact B.
      unfold DF in *. cbn. rewrite D. cbn. splits; auto.
    + unfold pdu_filedata_unacked, store_file_data. repeat (destr_inner; cbn [fst snd]); df_leaf s0 H1.
    + unfold pdu_ack_unacked. repeat (destr_inner; cbn [fst snd]); df_leaf s0 H1.
    + unfold pdu_metadata_unacked, set_metadata. destr_inner; df_leaf s0 H1.
  - (* send arm: with nothing queued only an ACK or a Finished PDU can go out *)
    destruct H0 as (A & B & C & D & E & F). assert (H0 : DF (set_r_out [] s)) by (unfold DF; splits; auto).
    destruct (has_pdu_to_send _); [|split; [exact H0|cbn; constructor]].
    unfold Recv.send_pdu. rewrite C, D. cbn [is_some is_nil negb].
    unfold send_ack_eof, send_finished, set_fin_flag, fin_flag, emit_pdu.
    repeat (destr_inner; cbn [fst snd]); (split; [df_leaf (set_r_out [] s) H0 | cbn; repeat (constructor; try exact I)]).
  - (* timers *)
    destruct (until_timeout now _) as [[|?]|]; try (split; [exact H0|cbn; constructor]).
    split; [|eapply Forall_impl; [|apply JN_handle_timeout; unfold JN; cbn; constructor]; intros [x|x]; cbn; tauto].
    unfold handle_timeout.
    assert (H1 : DF (ht_delayed now (set_r_out [] s))).
    { unfold ht_delayed. destruct H0 as (A & B & C & D & E & F). rewrite E. cbn. unfold DF. cbn. splits; auto. }
    assert (H2 : DF (fst (ht_inactivity now (ht_delayed now (set_r_out [] s))))).
    { remember (ht_delayed now (set_r_out [] s)) as s1 eqn:E1; clear E1. unfold ht_inactivity, c_limit_reached.
      repeat (destr_inner; cbn [fst snd]); df_leaf s1 H1. }
    destruct (ht_inactivity now (ht_delayed now (set_r_out [] s))) as [s2 go]. cbn [fst] in H2.
    destruct go; [|exact H2].
    unfold ht_phase. destruct H2 as (A & B & C & D & E & F). assert (H2 : DF s2) by (unfold DF; splits; auto).
    assert (H3 : DF (ht_nak now s2)).
    { destruct F as (F1 & F2). unfold ht_nak, c_timeout_occurred. rewrite (c_update_paused now _ F1), F2.
      eapply (DF_ext s2); [exact H2 | reflexivity ..]. }
    remember (ht_nak now s2) as s3 eqn:E3; clear E3.
    unfold ht_ackphase. destruct (r_phase s3); [exact H3| |]; unfold c_limit_reached, set_fin_flag;
      repeat (destr_inner; cbn [fst snd]); df_leaf s3 H3.
  - split; [unfold cancel; apply DF_cancel_; eapply (DF_ext (set_r_out [] s)); [exact H0 | reflexivity ..]|].
    eapply Forall_impl; [|apply (JN_cancel_ now (set_r_cond CancelReceived (set_r_out [] s))); unfold JN; cbn; constructor].
    intros [x|x]; cbn; tauto.
  - split; [apply DF_suspend; exact H0|cbn; repeat constructor].
  - (* resume: deferred and no EOF yet: the NAK list is not rebuilt *)
    destruct H0 as (A & B & C & D & E & F). assert (H0 : DF (set_r_out [] s)) by (unfold DF; splits; auto).
    unfold resume, eof_received. cbn [r_nakproc r_fsize upd_inact set_r_timer r_cfg r_phase]. rewrite A, B. cbn [orb is_some andb].
    rewrite andb_false_r.
    destruct (r_phase (set_r_out [] s)); (split; [eapply (DF_ext (set_r_out [] s)); [exact H0 | reflexivity ..] | cbn; repeat constructor]).
  - split; [unfold send_report; eapply (DF_ext (set_r_out [] s)); [exact H0 | reflexivity ..]|cbn; repeat constructor].
  - split; [apply DF_shutdown; exact H0|cbn; constructor].
Qed.


(* ================= C03 (receiver): an active transaction always has a timer running ================= *)
Definition RL (s : rstate) : Prop := r_state s = TActive -> c_paused (t_inact (r_timer s)) = false.

Lemma RL_ext (s s' : rstate) : RL s -> r_state s' = r_state s -> t_inact (r_timer s') = t_inact (r_timer s) -> RL s'.
Proof. unfold RL. intros H E1 E2. rewrite E1, E2. exact H. Qed.
Lemma RL_running (s s' : rstate) : c_paused (t_inact (r_timer s')) = false -> RL s'.
Proof. unfold RL. auto. Qed.
Lemma RL_inactive (s' : rstate) : r_state s' <> TActive -> RL s'.
Proof. unfold RL. intros H E. contradiction. Qed.

Lemma RL_shutdown now s : RL (shutdown now s).
Proof. apply RL_inactive. cbn. discriminate. Qed.
Lemma RL_abandon now s : RL (abandon now s).
Proof. unfold abandon. apply RL_shutdown. Qed.
Lemma RL_suspend now s : RL (suspend now s).
Proof. apply RL_inactive. cbn. discriminate. Qed.
Lemma RL_cancel_ now s : RL s -> RL (cancel_ now s).
Proof.
  intros H. unfold cancel_. destruct (cfg_mode _); [|destruct (closure _)].
  - eapply (RL_ext s); [exact H | reflexivity | reflexivity].
  - apply RL_inactive. cbn. discriminate.
  - apply RL_inactive. cbn. discriminate.
Qed.
Lemma RL_handle_fault now c s : RL s -> RL (fst (handle_fault now c s)).
Proof.
  intros H. unfold handle_fault.
  assert (H1 : RL (emit_ind (IFault c (r_recvd (set_r_cond c s))) (set_r_cond c s))) by (eapply (RL_ext s); [exact H | reflexivity ..]).
  destruct (handler _ c); cbn [fst]; [apply RL_cancel_; exact H1 | apply RL_suspend | exact H1 | apply RL_abandon].
Qed.
Ltac rl_calls _ :=
  lazymatch goal with
  | |- RL (shutdown _ _) => apply RL_shutdown
  | |- RL (abandon _ _) => apply RL_abandon
  | |- RL (suspend _ _) => apply RL_suspend
  | |- RL (cancel_ _ _) => apply RL_cancel_
  | |- RL (fst (handle_fault _ _ _)) => apply RL_handle_fault
  end.
Ltac rl := solve_st RL RL_ext rl_calls.

Lemma RL_finalize now s : RL s -> RL (finalize_receive now s).
Proof.
  intros H. unfold Recv.finalize_receive.
  set (s0 := set_r_dc _ s). assert (H0 : RL s0) by (unfold s0; rl). clearbody s0. clear H.
  assert (H1 : RL (fst (if is_file_transfer s0
                        then let '(s1, go) := fr_verify FS cksum now s0 in
                             if go then (fr_store FS fs_write_file s1, true) else (s1, false)
                        else (set_r_fstat FUnreported s0, true)))).
  { destruct (is_file_transfer s0); cbn [fst]; [|rl].
    assert (Hv : RL (fst (fr_verify FS cksum now s0))) by (unfold fr_verify; destr_inner; cbn [fst]; rl).
    destruct (fr_verify FS cksum now s0) as [s1 go]. cbn [fst] in Hv.
    destruct go; cbn [fst]; [|exact Hv]. unfold fr_store. destr_inner; rl. }
  destruct (if is_file_transfer s0 then _ else _) as [s2 go2]. cbn [fst] in H1.
  destruct go2; [|exact H1].
  assert (H2 : RL (fst (fr_rejection now s2))).
  { unfold fr_rejection. destruct (r_fstat s2); cbn [fst]; try exact H1. rl. }
  destruct (fr_rejection now s2) as [s3 go3]. cbn [fst] in H2.
  destruct go3; [|exact H2]. unfold fr_requests. destruct (run_requests _ _ _ _ _ _ _). rl.
Qed.
Lemma RL_check_finished now s : RL s -> RL (check_finished now s).
Proof.
  intros H. unfold Recv.check_finished. destr_inner; [|exact H].
  eapply RL_ext; [apply (RL_finalize now s H)|reflexivity|reflexivity].
Qed.
Lemma RL_check_file_size now size s : RL s -> RL (check_file_size now size s).
Proof. intros H. unfold check_file_size. destr_inner; [rl|exact H]. Qed.
Ltac rlb_calls _ :=
  lazymatch goal with
  | |- RL (check_file_size _ _ _) => apply RL_check_file_size
  | |- RL (check_finished _ _) => apply RL_check_finished
  | |- RL (finalize_receive _ _) => apply RL_finalize
  | |- RL (store_file_data _ _ _) => unfold store_file_data; repeat destr_inner
  | _ => rl_calls tt
  end.
Ltac rlb := solve_st RL RL_ext rlb_calls.

Lemma RL_process_pdu now p s : RL s -> RL (fst (process_pdu now p s)).
Proof.
  intros H. unfold Recv.process_pdu.
  set (s0 := if suspended s then s else upd_inact (c_reset now) s).
  assert (H0 : RL s0) by (unfold s0; destruct (suspended s); [exact H|apply (RL_running s); reflexivity]).
  clearbody s0. clear H.
  destruct (cfg_mode (r_cfg s0)); destruct p; cbn [fst]; try exact H0;
    unfold pdu_filedata_acked, pdu_eof_acked, pdu_ack_acked, pdu_metadata_acked, pdu_filedata_unacked,
           pdu_eof_unacked, pdu_ack_unacked, pdu_metadata_unacked, set_metadata, c_timeout_occurred, store_file_data;
    repeat (first [destr_pair_keep | destr_inner]; cbn [fst snd]); try rlb.
Qed.

Lemma RL_send_pdu now s : RL s -> RL (send_pdu resp_len req_len now s).
Proof.
  intros H. unfold Recv.send_pdu, answer_prompt, send_ack_eof, send_finished, send_naks, set_fin_flag, c_limit_reached.
  repeat (first [destr_pair_keep | destr_inner]; cbn [fst snd]); try rl.
Qed.

Lemma RL_handle_timeout now s : RL s -> RL (handle_timeout now s).
Proof.
  intros H. unfold handle_timeout.
  assert (H1 : RL (ht_delayed now s)).
  { unfold ht_delayed. destruct (expire_delayed now (r_delayed s)). repeat (destr_inner; cbn [fst snd]); rl. }
  assert (H2 : RL (fst (ht_inactivity now (ht_delayed now s)))).
  { remember (ht_delayed now s) as s1 eqn:E; clear E. unfold ht_inactivity, c_limit_reached. cbn [fst snd].
    set (s2 := upd_inact (fun _ => c_update now (t_inact (r_timer s1))) s1).
    assert (Hs2 : RL s2) by (unfold RL, s2 in *; cbn; rewrite c_update_paused_eq; exact H1).
    clearbody s2.
    repeat (first [destr_pair_keep | destr_inner]; cbn [fst snd]); try rl.
    apply (RL_running s2). reflexivity. }
  destruct (ht_inactivity now (ht_delayed now s)) as [s2 go]. cbn [fst] in H2.
  destruct go; [|exact H2].
  assert (H3 : RL (ht_nak now s2)).
  { unfold ht_nak, c_timeout_occurred. repeat (first [destr_pair_keep | destr_inner]; cbn [fst snd]); try rl. }
  unfold ht_phase. remember (ht_nak now s2) as s3 eqn:E3; clear E3.
  unfold ht_ackphase, c_limit_reached, c_timeout_occurred, set_fin_flag.
  repeat (first [destr_pair_keep | destr_inner]; cbn [fst snd]); try rl.
Qed.

Theorem RL_rstep now o s : RL s -> RL (fst (rstep now o s)).
Proof.
  intros H. unfold Recv.rstep.
  assert (H0 : RL (set_r_out [] s)) by (eapply (RL_ext s); [exact H | reflexivity ..]).
  destruct o; cbn [fst].
  - apply RL_process_pdu; exact H0.
  - destruct (has_pdu_to_send _); [apply RL_send_pdu|]; exact H0.
  - destruct (until_timeout now _) as [[|?]|]; [apply RL_handle_timeout| |]; exact H0.
  - unfold cancel. apply RL_cancel_. rl.
  - apply RL_suspend.
  - unfold resume. apply (RL_running s). repeat destr_inner; reflexivity.
  - unfold send_report. rl.
  - apply RL_shutdown.
Qed.
Lemma RL_init now cfg np fs : RL (r_new now cfg np fs).
Proof. apply (RL_running (r_new now cfg np fs)). reflexivity. Qed.

(* an active receive transaction is never stuck: its inactivity timer is running, so the
   loop's timeout arm has a finite deadline *)
Theorem recv_never_stuck now s : RL s -> r_state s = TActive -> until_timeout now s <> None.
Proof.
  intros H Hs. unfold until_timeout, suspended. rewrite Hs. cbn [tstate_eqb].
  specialize (H Hs). destruct (r_delayed s) as [|[[c a] b] t]; [apply c_until_some; exact H|apply omin_some].
Qed.

End RecvInv.
