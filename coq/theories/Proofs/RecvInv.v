(* Invariant passes over the receive-transaction model (C19, C20, C18, C17). *)
From CFDP Require Import Base.Prelude Model.Segments Model.Timer Model.TxTypes Model.Recv
  Proofs.SegmentsP Proofs.Tac Proofs.RecvP.

(* recursive solver for goals [J state-expression] *)
Ltac solve_st J ext calls :=
  lazymatch goal with
  | |- J ?t =>
      first [ assumption
            | calls tt; solve_st J ext calls
            | let b := strip_r_ne t in
              tryif constr_eq b t then fail
              else (eapply (ext b); [ solve_st J ext calls | reflexivity .. ])
            | let b := strip_r t in
              tryif constr_eq b t then fail
              else (eapply (ext b); [ solve_st J ext calls | reflexivity .. ]) ]
  end.

Section RecvInv.
Variable FS : Type.
Variable fs_write_file : FS -> bytes -> bytes -> option FS.
Variable fs_exec : FS -> fsreq -> FS * fsresp.
Variable resp_fail : fsresp -> bool.
Variable not_performed : fsreq -> fsresp.
Variable cksum : cktype -> bytes -> N.
Variable resp_len : fsresp -> N.
Variable req_len : fsreq -> N.

Notation rstate := (rstate FS).
Notation rstep := (rstep FS fs_write_file fs_exec resp_fail not_performed cksum resp_len req_len).
Notation process_pdu := (process_pdu FS fs_write_file fs_exec resp_fail not_performed cksum).
Notation check_finished := (check_finished FS fs_write_file fs_exec resp_fail not_performed cksum).
Notation finalize_receive := (finalize_receive FS fs_write_file fs_exec resp_fail not_performed cksum).

(* ================= C19: what a transaction emits while it processes a PDU ================= *)
Definition limit_cond (c : cond) : Prop :=
  c = InactivityDetected \/ c = PositiveLimitReached \/ c = NakLimitReached.
(* quiet: no PDU, no timer-limit fault *)
Definition quiet (o : out) : Prop :=
  match o with
  | OPdu _ => False
  | OInd (IFault c _) => ~ limit_cond c
  | OInd _ => True
  end.
Definition JQ (s : rstate) : Prop := Forall quiet (r_out s).

Lemma JQ_ext (s s' : rstate) : JQ s -> r_out s' = r_out s -> JQ s'.
Proof. unfold JQ. intros H E. rewrite E. exact H. Qed.
Lemma JQ_ind i (s : rstate) : quiet (OInd i) -> JQ s -> JQ (emit_ind i s).
Proof. unfold JQ. cbn. intros Q H. constructor; assumption. Qed.

Ltac jq_side := cbn; unfold limit_cond; intuition congruence.

Lemma JQ_shutdown now s : JQ s -> JQ (shutdown now s).
Proof. intros H. eapply JQ_ext; [exact H|reflexivity]. Qed.
Lemma JQ_abandon now s : JQ s -> JQ (abandon now s).
Proof. intros H. apply JQ_shutdown. unfold abandon. apply JQ_ind; [exact I|]. eapply JQ_ext; [exact H|reflexivity]. Qed.
Lemma JQ_suspend now s : JQ s -> JQ (suspend now s).
Proof. intros H. unfold suspend. apply JQ_ind; [exact I|]. eapply JQ_ext; [exact H|reflexivity]. Qed.
Lemma JQ_cancel_ now s : JQ s -> JQ (cancel_ now s).
Proof.
  intros H. unfold cancel_. apply JQ_ind; [exact I|].
  destruct (cfg_mode _); [|destruct (closure _)]; try apply JQ_shutdown;
    (eapply JQ_ext; [exact H|reflexivity]).
Qed.
Lemma JQ_handle_fault now c s : ~ limit_cond c -> JQ s -> JQ (fst (handle_fault now c s)).
Proof.
  intros Hc H. unfold handle_fault.
  assert (H1 : JQ (emit_ind (IFault c (r_recvd (set_r_cond c s))) (set_r_cond c s))).
  { apply JQ_ind; [exact Hc|]. eapply JQ_ext; [exact H|reflexivity]. }
  destruct (handler _ c); cbn [fst]; [apply JQ_cancel_|apply JQ_suspend| |apply JQ_abandon]; exact H1.
Qed.

Ltac jq_calls _ :=
  lazymatch goal with
  | |- JQ (shutdown _ _) => apply JQ_shutdown
  | |- JQ (abandon _ _) => apply JQ_abandon
  | |- JQ (suspend _ _) => apply JQ_suspend
  | |- JQ (cancel_ _ _) => apply JQ_cancel_
  | |- JQ (fst (handle_fault _ _ _)) => apply JQ_handle_fault; [jq_side|]
  | |- JQ (emit_ind _ _) => apply JQ_ind; [jq_side|]
  end.
Ltac jq := solve_st JQ JQ_ext jq_calls.
Ltac pass_q := repeat (first [destr_pair_keep | destr_inner]; cbn [fst snd]); try jq.

Lemma JQ_check_file_size now size s : JQ s -> JQ (check_file_size now size s).
Proof. intros H. unfold check_file_size. pass_q. Qed.

Lemma JQ_store off d s : JQ s -> JQ (store_file_data off d s).
Proof.
  intros H. unfold store_file_data. destruct (is_nil d); [exact H|].
  destruct (ins _ _ _). jq.
Qed.

Lemma JQ_fr_verify now s : JQ s -> JQ (fst (fr_verify FS cksum now s)).
Proof. intros H. unfold fr_verify. pass_q. Qed.
Lemma JQ_fr_store s : JQ s -> JQ (fr_store FS fs_write_file s).
Proof. intros H. unfold fr_store. pass_q. Qed.
Lemma JQ_fr_rejection now s : JQ s -> JQ (fst (fr_rejection now s)).
Proof. intros H. unfold fr_rejection. destruct (r_fstat s); cbn [fst]; try exact H. jq. Qed.
Lemma JQ_fr_requests s : JQ s -> JQ (fr_requests FS fs_exec resp_fail not_performed s).
Proof. intros H. unfold fr_requests. destruct (run_requests _ _ _ _ _ _ _). jq. Qed.

Lemma JQ_finalize now s : JQ s -> JQ (finalize_receive now s).
Proof.
  intros H. unfold Recv.finalize_receive.
  set (s0 := set_r_dc _ s). assert (H0 : JQ s0) by (unfold s0; jq). clearbody s0. clear H.
  assert (H1 : JQ (fst (if is_file_transfer s0
                        then let '(s1, go) := fr_verify FS cksum now s0 in
                             if go then (fr_store FS fs_write_file s1, true) else (s1, false)
                        else (set_r_fstat FUnreported s0, true)))).
  { destruct (is_file_transfer s0); cbn [fst]; [|jq].
    pose proof (JQ_fr_verify now s0 H0) as Hv. destruct (fr_verify FS cksum now s0) as [s1 go]. cbn [fst] in Hv.
    destruct go; cbn [fst]; [apply JQ_fr_store|]; exact Hv. }
  destruct (if is_file_transfer s0 then _ else _) as [s2 go2]. cbn [fst] in H1.
  destruct go2; [|exact H1].
  pose proof (JQ_fr_rejection now s2 H1) as H2. destruct (fr_rejection now s2) as [s3 go3]. cbn [fst] in H2.
  destruct go3; [apply JQ_fr_requests|]; exact H2.
Qed.

Lemma JQ_check_finished now s : JQ s -> JQ (check_finished now s).
Proof.
  intros H. unfold Recv.check_finished. destr_inner; [|exact H].
  eapply JQ_ext; [apply (JQ_finalize now s H)|reflexivity].
Qed.

Ltac jq2_calls _ :=
  lazymatch goal with
  | |- JQ (check_file_size _ _ _) => apply JQ_check_file_size
  | |- JQ (store_file_data _ _ _) => apply JQ_store
  | |- JQ (check_finished _ _) => apply JQ_check_finished
  | |- JQ (finalize_receive _ _) => apply JQ_finalize
  | _ => jq_calls tt
  end.
Ltac jq2 := solve_st JQ JQ_ext jq2_calls.
Ltac pass_q2 := repeat (first [destr_pair_keep | destr_inner]; cbn [fst snd]); try jq2.

Lemma JQ_filedata_acked now o d s : JQ s ->
  JQ (pdu_filedata_acked FS fs_write_file fs_exec resp_fail not_performed cksum now o d s).
Proof.
  intros H. unfold pdu_filedata_acked. destr_inner; [exact H|].
  apply JQ_check_finished. unfold c_timeout_occurred. pass_q2.
Qed.

Lemma JQ_eof_acked now e s : JQ s ->
  JQ (pdu_eof_acked FS fs_write_file fs_exec resp_fail not_performed cksum now e s).
Proof. intros H. unfold pdu_eof_acked. pass_q2. Qed.

Lemma JQ_metadata_acked now m s : JQ s ->
  JQ (pdu_metadata_acked FS fs_write_file fs_exec resp_fail not_performed cksum now m s).
Proof. intros H. unfold pdu_metadata_acked, set_metadata. pass_q2. Qed.

Lemma JQ_eof_unacked now e s : JQ s ->
  JQ (pdu_eof_unacked FS fs_write_file fs_exec resp_fail not_performed cksum now e s).
Proof. intros H. unfold pdu_eof_unacked. pass_q2. Qed.

(* processing a received PDU never transmits anything and never declares a limit fault *)
Lemma JQ_process_pdu now p s : JQ s -> JQ (fst (process_pdu now p s)).
Proof.
  intros H. unfold Recv.process_pdu.
  set (s0 := if suspended s then s else upd_inact (c_reset now) s).
  assert (H0 : JQ s0) by (unfold s0; destruct (suspended s); jq). clearbody s0. clear H.
  destruct (cfg_mode (r_cfg s0)); destruct p; cbn [fst]; try exact H0;
    first [ apply JQ_filedata_acked | apply JQ_eof_acked | apply JQ_metadata_acked | apply JQ_eof_unacked | idtac ];
    try exact H0;
    unfold pdu_ack_acked, pdu_ack_unacked, pdu_metadata_unacked, pdu_filedata_unacked, set_metadata;
    repeat (destr_inner; cbn [fst snd]); try exact H0; try jq2.
Qed.

(* C19 at the level of one loop iteration: while the transaction is suspended, whatever the
   operation (received PDU, send opportunity, timer expiry, user request), nothing is
   transmitted and no limit fault is declared; has_pdu_to_send and until_timeout say so *)
Theorem suspended_silent now o s : suspended s = true ->
  has_pdu_to_send s = false /\ until_timeout now s = None /\
  Forall quiet (r_out (fst (rstep now o s))).
Proof.
  intros Hs. unfold has_pdu_to_send, until_timeout. rewrite Hs. splits; try reflexivity.
  change (JQ (fst (rstep now o s))). unfold Recv.rstep.
  assert (H0 : JQ (set_r_out [] s)) by (unfold JQ; cbn; constructor).
  assert (Hs0 : suspended (set_r_out [] s) = true) by exact Hs.
  destruct o; cbn [fst].
  - apply JQ_process_pdu; exact H0.
  - unfold has_pdu_to_send. rewrite Hs0. exact H0.
  - unfold until_timeout. rewrite Hs0. exact H0.
  - unfold cancel. apply JQ_cancel_. jq.
  - apply JQ_suspend; exact H0.
  - unfold resume. repeat (destr_inner; cbn [fst snd]); jq.
  - unfold send_report. jq.
  - apply JQ_shutdown; exact H0.
Qed.


(* ================= C20: the receiver's progress figure ================= *)
(* the bookkeeping invariant: the segment list is well-formed and the running count
   received_file_size equals the number of bytes it covers (= distinct bytes held, C09) *)
Definition D20 (s : rstate) : Prop := Inv (r_segs s) /\ r_recvd s = total (r_segs s).

Lemma D20_ext (s s' : rstate) : D20 s -> r_segs s' = r_segs s -> r_recvd s' = r_recvd s -> D20 s'.
Proof. unfold D20. intros (A & B) E1 E2. rewrite E1, E2. auto. Qed.

Lemma D20_of_Kp (s s' : rstate) : Kp FS s s' -> D20 s -> D20 s'.
Proof. intros (_ & _ & _ & (E1 & E2 & _)) H. eapply D20_ext; eassumption. Qed.

Lemma D20_store off d s : D20 s -> D20 (store_file_data off d s).
Proof.
  intros (Hi & Hr). unfold store_file_data. destruct (is_nil d) eqn:En; [split; assumption|].
  cbn [r_segs set_r_staged].
  destruct (ins off (off + N.of_nat (length d)) (r_segs s)) as [v n] eqn:E.
  assert (Hlt : off < off + N.of_nat (length d)).
  { destruct d; [discriminate|]. cbn [length]. lia. }
  destruct (ins_ok _ _ _ Hlt Hi _ _ E) as (H1 & _ & H3 & _).
  unfold D20. cbn. split; [exact H1|]. rewrite H3, Hr. reflexivity.
Qed.

Ltac d20_kp lem := eapply D20_of_Kp; [ apply lem; apply Kp_refl | ].
Ltac d20_calls _ :=
  lazymatch goal with
  | |- D20 (store_file_data _ _ _) => apply D20_store
  | |- D20 (shutdown _ _) => d20_kp Kp_shutdown
  | |- D20 (abandon _ _) => d20_kp Kp_abandon
  | |- D20 (suspend _ _) => d20_kp Kp_suspend
  | |- D20 (cancel_ _ _) => d20_kp Kp_cancel_
  | |- D20 (fst (handle_fault _ _ _)) => d20_kp Kp_handle_fault
  end.
Ltac d20 := solve_st D20 D20_ext d20_calls.
Ltac pass_d20 := repeat (first [destr_pair_keep | destr_inner]; cbn [fst snd]); try d20.

Lemma D20_check_file_size now size s : D20 s -> D20 (check_file_size now size s).
Proof. intros H. unfold check_file_size. pass_d20. Qed.
Lemma D20_finalize now s : D20 s -> D20 (finalize_receive now s).
Proof.
  intros H. unfold Recv.finalize_receive.
  set (s0 := set_r_dc _ s). assert (H0 : D20 s0) by (unfold s0; d20). clearbody s0. clear H.
  assert (H1 : D20 (fst (if is_file_transfer s0
                        then let '(s1, go) := fr_verify FS cksum now s0 in
                             if go then (fr_store FS fs_write_file s1, true) else (s1, false)
                        else (set_r_fstat FUnreported s0, true)))).
  { destruct (is_file_transfer s0); cbn [fst]; [|d20].
    assert (Hv : D20 (fst (fr_verify FS cksum now s0))) by (unfold fr_verify; pass_d20).
    destruct (fr_verify FS cksum now s0) as [s1 go]. cbn [fst] in Hv.
    destruct go; cbn [fst]; [|exact Hv]. unfold fr_store. pass_d20. }
  destruct (if is_file_transfer s0 then _ else _) as [s2 go2]. cbn [fst] in H1.
  destruct go2; [|exact H1].
  assert (H2 : D20 (fst (fr_rejection now s2))).
  { unfold fr_rejection. destruct (r_fstat s2); cbn [fst]; try exact H1. d20. }
  destruct (fr_rejection now s2) as [s3 go3]. cbn [fst] in H2.
  destruct go3; [|exact H2]. unfold fr_requests. destruct (run_requests _ _ _ _ _ _ _). d20.
Qed.
Lemma D20_check_finished now s : D20 s -> D20 (check_finished now s).
Proof.
  intros H. unfold Recv.check_finished. destr_inner; [|exact H].
  eapply D20_ext; [apply (D20_finalize now s H)|reflexivity|reflexivity].
Qed.

Ltac d20b_calls _ :=
  lazymatch goal with
  | |- D20 (check_file_size _ _ _) => apply D20_check_file_size
  | |- D20 (check_finished _ _) => apply D20_check_finished
  | |- D20 (finalize_receive _ _) => apply D20_finalize
  | _ => d20_calls tt
  end.
Ltac d20b := solve_st D20 D20_ext d20b_calls.
Ltac pass_d20b := repeat (first [destr_pair_keep | destr_inner]; cbn [fst snd]); try d20b.

Lemma D20_process_pdu now p s : D20 s -> D20 (fst (process_pdu now p s)).
Proof.
  intros H. unfold Recv.process_pdu.
  set (s0 := if suspended s then s else upd_inact (c_reset now) s).
  assert (H0 : D20 s0) by (unfold s0; destruct (suspended s); d20). clearbody s0. clear H.
  destruct (cfg_mode (r_cfg s0)); destruct p; cbn [fst]; try exact H0;
    unfold pdu_filedata_acked, pdu_eof_acked, pdu_ack_acked, pdu_metadata_acked, pdu_filedata_unacked,
           pdu_eof_unacked, pdu_ack_unacked, pdu_metadata_unacked, set_metadata, c_timeout_occurred;
    pass_d20b.
Qed.

Theorem D20_rstep now o s : D20 s -> D20 (fst (rstep now o s)).
Proof.
  intros H. unfold Recv.rstep.
  assert (H0 : D20 (set_r_out [] s)) by d20.
  destruct o; cbn [fst].
  - apply D20_process_pdu; exact H0.
  - destruct (has_pdu_to_send _); [|exact H0].
    eapply D20_of_Kp; [apply Kp_send_pdu; apply Kp_refl | exact H0].
  - destruct (until_timeout now _) as [[|?]|]; try exact H0.
    eapply D20_of_Kp; [apply Kp_handle_timeout; apply Kp_refl | exact H0].
  - eapply D20_of_Kp; [apply Kp_cancel; apply Kp_refl | exact H0].
  - eapply D20_of_Kp; [apply Kp_suspend; apply Kp_refl | exact H0].
  - eapply D20_of_Kp; [apply Kp_resume; apply Kp_refl | exact H0].
  - eapply D20_of_Kp; [apply Kp_send_report; apply Kp_refl | exact H0].
  - eapply D20_of_Kp; [apply Kp_shutdown; apply Kp_refl | exact H0].
Qed.

Lemma D20_init now cfg np fs : D20 (r_new now cfg np fs).
Proof. unfold D20, r_new. cbn. auto. Qed.

(* what the progress-carrying outputs carry: the current received_file_size *)
Lemma progress_sites now c (s : rstate) :
  (exists s1, fst (handle_fault now c s) = s1 /\
     In (OInd (IFault c (r_recvd s))) (r_out s1)) /\
  In (OInd (IAbandon (r_cond s) (r_recvd s))) (r_out (abandon now s)) /\
  In (OInd (IResumed (r_recvd s))) (r_out (resume now s)).
Proof.
  splits.
  - eexists. split; [reflexivity|]. unfold handle_fault.
    destruct (handler _ c); cbn [fst]; unfold cancel_, suspend, abandon;
      repeat destr_inner; cbn; auto 6.
  - unfold abandon. cbn. auto.
  - unfold resume. repeat destr_inner; cbn; auto.
Qed.

End RecvInv.
