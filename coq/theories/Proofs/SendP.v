(* Proofs about the send-transaction model (Model/Send.v): C07, C20, C19, C18, C17. *)
From CFDP Require Import Base.Prelude Model.Timer Model.TxTypes Model.Recv Model.Send Proofs.Tac Proofs.TimerP.

Lemma SegBounds e a seg : 0 < seg -> a < e -> forall k,
  0 <= k < 0 + (e - a + seg - 1) / seg -> a + k * seg < e.
Proof.
  intros Hs Hlt k Hk. destruct (div_bounds (e - a + seg - 1) seg Hs) as (Hq & _).
  set (q := (e - a + seg - 1) / seg) in *.
  assert (Hk1 : (k + 1) * seg <= q * seg) by (apply N.mul_le_mono_r; lia).
  rewrite N.mul_add_distr_r, N.mul_1_l in Hk1.
  generalize dependent (k * seg). generalize dependent (q * seg). intros. lia.
Qed.

Section SendP.
Variable cksum : cktype -> bytes -> N.
Variable resp_len : fsresp -> N.
Variable req_len : fsreq -> N.

Notation sstep := (sstep cksum resp_len req_len).
Notation s_send_pdu := (s_send_pdu cksum resp_len req_len).
Notation s_handle_timeout := (s_handle_timeout cksum).
Notation s_handle_fault := (s_handle_fault cksum).
Notation s_cancel_ := (s_cancel_ cksum).
Notation s_cancel := (s_cancel cksum).
Notation prepare_eof := (prepare_eof cksum).
Notation send_file_segment := (send_file_segment resp_len req_len).
Notation send_missing_data := (send_missing_data resp_len req_len).
Notation send_metadata := (send_metadata resp_len req_len).
Notation send_eof := (send_eof resp_len req_len).
Notation send_prompt := (send_prompt resp_len req_len).
Notation send_ack := (send_ack resp_len req_len).
Notation semit_pdu := (semit_pdu resp_len req_len).

(* ------------------------------------------------------------------ *)
(* slice: what one read of the source file returns *)
Lemma slice_length f off len : N.of_nat (length (slice f off len)) = N.min len (N.of_nat (length f) - off).
Proof.
  unfold slice. rewrite firstn_length, skipn_length. lia.
Qed.

(* ---- the NAK queue: every entry is the metadata marker or a non-empty range inside the
   file no longer than a segment ---- *)
Definition req_ok (seg flen : N) (r : N * N) : Prop :=
  (fst r = 0 /\ snd r = 0) \/ (fst r < snd r /\ snd r <= flen /\ snd r - fst r <= seg).

Lemma nseq_spec start n k : In k (nseq start n) <-> start <= k < start + N.of_nat n.
Proof.
  revert start. induction n as [|n IH]; intros start; cbn [nseq In].
  - lia.
  - rewrite IH. lia.
Qed.

Lemma split_request_ok seg flen r : 0 < seg -> Forall (req_ok seg flen) (split_request seg flen r).
Proof.
  intros Hseg. destruct r as [a e0]. unfold split_request.
  destruct ((a =? 0) && (e0 =? 0)) eqn:E0.
  - constructor; [|constructor]. left. apply andb_prop in E0 as [A B].
    apply N.eqb_eq in A. apply N.eqb_eq in B. cbn. auto.
  - destruct (N.leb_spec (N.min e0 flen) a) as [Hle|Hlt]; [constructor|].
    set (e := N.min e0 flen) in *.
    apply Forall_forall. intros x Hx. apply in_map_iff in Hx as (k & Hk & Hin).
    apply nseq_spec in Hin. rewrite N2Nat.id in Hin.
    assert (Hd := SegBounds e a seg Hseg Hlt k).
    subst x. right. destruct (N.ltb_spec (a + k * seg) (e - seg)); cbn [fst snd]; lia.
Qed.


Lemma dedup_acc_incl seen l x : In x (dedup_acc seen l) -> In x l.
Proof.
  revert seen. induction l as [|y t IH]; intros seen H; cbn [dedup_acc] in H; [contradiction|].
  destruct (existsb (pair_eqb y) seen).
  - right. eapply IH; eassumption.
  - destruct H as [H|H]; [left; assumption|right; eapply IH; eassumption].
Qed.
Lemma dedup_forall (P : N * N -> Prop) l : Forall P l -> Forall P (dedup l).
Proof.
  intros H. apply Forall_forall. intros x Hx. apply dedup_acc_incl in Hx.
  rewrite Forall_forall in H. auto.
Qed.

(* ================= C07: every file data PDU carries the file's bytes ================= *)
Definition fd_ok (file : bytes) (seg : N) (o : out) : Prop :=
  match o with
  | OPdu p =>
      match o_payload p with
      | PFileData off d =>
          d = slice file off (N.of_nat (length d)) /\ d <> [] /\
          N.of_nat (length d) <= seg /\ off + N.of_nat (length d) <= N.of_nat (length file)
      | _ => True
      end
  | OInd _ => True
  end.

Definition flen (s : sstate) : N := N.of_nat (length (s_file s)).

Definition S7 (s : sstate) : Prop :=
  md_size (s_meta s) = flen s /\ 0 < cfg_seg (s_cfg s) /\
  s_pos s <= flen s /\ Forall (req_ok (cfg_seg (s_cfg s)) (flen s)) (s_naks s) /\
  (s_phase s = SendData -> s_pos s < flen s) /\ (s_phase s = SendMetadata -> s_pos s = 0) /\
  Forall (fd_ok (s_file s) (cfg_seg (s_cfg s))) (s_out s).

Lemma S7_ext (s s' : sstate) : S7 s -> s_meta s' = s_meta s -> s_cfg s' = s_cfg s -> s_file s' = s_file s ->
  s_pos s' = s_pos s -> s_naks s' = s_naks s -> s_phase s' = s_phase s -> s_out s' = s_out s -> S7 s'.
Proof.
  unfold S7, flen. intros (A & B & C & D & E & E' & F) E1 E2 E3 E4 E5 E6 E7.
  rewrite E1, E2, E3, E4, E5, E6, E7. splits; auto.
Qed.
(* one more output that is not a file data PDU *)
Lemma S7_out o (s s' : sstate) : S7 s -> s_meta s' = s_meta s -> s_cfg s' = s_cfg s -> s_file s' = s_file s ->
  s_pos s' = s_pos s -> s_naks s' = s_naks s -> s_phase s' = s_phase s -> s_out s' = o :: s_out s ->
  fd_ok (s_file s) (cfg_seg (s_cfg s)) o -> S7 s'.
Proof.
  unfold S7, flen. intros (A & B & C & D & E & E' & F) E1 E2 E3 E4 E5 E6 E7 Ho.
  rewrite E1, E2, E3, E4, E5, E6, E7. splits; auto.
Qed.
(* a phase change to SendEof / Cancelled / Finished, possibly moving the cursor within the file *)
Definition late_phase (p : sphase) : Prop := p <> SendData /\ p <> SendMetadata.
Lemma S7_phase (s s' : sstate) : S7 s -> s_meta s' = s_meta s -> s_cfg s' = s_cfg s -> s_file s' = s_file s ->
  s_pos s' <= flen s -> s_naks s' = s_naks s -> late_phase (s_phase s') -> s_out s' = s_out s -> S7 s'.
Proof.
  unfold S7, flen, late_phase. intros (A & B & C & D & E & E' & F) E1 E2 E3 E4 E5 (E6 & E6') E7.
  rewrite E1, E2, E3, E5, E7. splits; auto; intros Hp; contradiction.
Qed.
Lemma S7_naks (s s' : sstate) : S7 s -> s_meta s' = s_meta s -> s_cfg s' = s_cfg s -> s_file s' = s_file s ->
  s_pos s' = s_pos s -> Forall (req_ok (cfg_seg (s_cfg s)) (flen s)) (s_naks s') ->
  s_phase s' = s_phase s -> s_out s' = s_out s -> S7 s'.
Proof.
  unfold S7, flen. intros (A & B & C & D & E & E' & F) E1 E2 E3 E4 E5 E6 E7.
  rewrite E1, E2, E3, E4, E6, E7. splits; auto.
Qed.

Lemma slice_self f off len :
  slice f off len = slice f off (N.of_nat (length (slice f off len))).
Proof.
  unfold slice. rewrite Nat2N.id. rewrite firstn_length.
  destruct (Nat.le_ge_cases (N.to_nat len) (length (skipn (N.to_nat off) f))) as [H|H].
  - rewrite Nat.min_l by exact H. reflexivity.
  - rewrite Nat.min_r by exact H. rewrite !firstn_all2; auto.
Qed.

(* one read of [len] bytes at [off], with off inside the file and len within a segment *)
Lemma fd_ok_slice file seg off len p :
  0 < len -> len <= seg -> off < N.of_nat (length file) ->
  o_payload p = PFileData off (slice file off len) -> fd_ok file seg (OPdu p).
Proof.
  intros Hl Hs Ho Hp. unfold fd_ok. rewrite Hp.
  pose proof (slice_length file off len) as Hn. splits.
  - apply slice_self.
  - intros E. rewrite E in Hn. cbn in Hn. lia.
  - lia.
  - lia.
Qed.


Ltac s7_out_side := cbn; exact I.
Ltac s7_leaf :=
  lazymatch goal with
  | |- S7 ?t =>
      let b := strip_s t in
      first [ eapply (S7_ext b); [ | reflexivity .. ]
            | eapply (S7_out _ b); [ | reflexivity | reflexivity | reflexivity | reflexivity | reflexivity
                                   | reflexivity | reflexivity | s7_out_side ] ]
  end.

Lemma S7_shutdown now s : S7 s -> S7 (s_shutdown now s).
Proof. intros H. unfold s_shutdown. s7_leaf. exact H. Qed.
Lemma S7_abandon now s : S7 s -> S7 (s_abandon now s).
Proof. intros H. unfold s_abandon. apply S7_shutdown. s7_leaf. exact H. Qed.
Lemma S7_suspend now s : S7 s -> S7 (s_suspend now s).
Proof. intros H. unfold s_suspend. s7_leaf. exact H. Qed.
Lemma S7_resume now s : S7 s -> S7 (s_resume now s).
Proof. intros H. unfold s_resume. destruct (s_phase s) eqn:E; s7_leaf; exact H. Qed.
Lemma S7_set_eof_flag b s : S7 s -> S7 (set_eof_flag b s).
Proof. intros H. unfold set_eof_flag. destruct (s_eof s) as [[e f]|]; [s7_leaf|]; exact H. Qed.

(* prepare_eof may leave the cursor at the end of the file (the checksum read it) *)
Lemma S7_prepare_eof fl s : S7 s -> late_phase (s_phase s) -> S7 (prepare_eof fl s).
Proof.
  intros H Hl. unfold Send.prepare_eof, Send.get_checksum.
  destruct (s_cksum s); cbn [fst snd]; [s7_leaf; exact H|].
  destruct (s_is_file_transfer s); cbn [fst snd]; [|s7_leaf; exact H].
  destruct (md_ck (s_meta s)); [|s7_leaf; exact H].
  eapply (S7_phase s); [exact H | reflexivity | reflexivity | reflexivity | cbn; unfold flen; lia
                       | reflexivity | exact Hl | reflexivity].
Qed.

Lemma S7_cancel_ now c s : S7 s -> S7 (s_cancel_ now c s).
Proof.
  intros H. unfold Send.s_cancel_. apply S7_prepare_eof.
  - eapply (S7_phase s); [exact H | reflexivity | reflexivity | reflexivity | destruct H as (_ & _ & C & _); exact C
                         | reflexivity | cbn; unfold late_phase; split; discriminate | reflexivity].
  - cbn. unfold late_phase; split; discriminate.
Qed.

Lemma S7_handle_fault now c s : S7 s -> S7 (s_handle_fault now c s).
Proof.
  intros H. unfold Send.s_handle_fault.
  assert (H1 : S7 (semit_ind (IFault c (s_sent (set_s_cond c s))) (set_s_cond c s))) by (s7_leaf; exact H).
  destruct (handler _ c); [apply S7_cancel_ | apply S7_suspend | | apply S7_abandon]; exact H1.
Qed.

Lemma S7_ht_ack_eof now s : S7 s -> S7 (ht_ack_eof cksum now s).
Proof.
  intros H. unfold ht_ack_eof, c_timeout_occurred. cbn [fst snd].
  set (s3 := supd_ack (fun _ => c_update now (t_ack (s_timer s))) s).
  assert (H3 : S7 s3) by (unfold s3; s7_leaf; exact H). clearbody s3.
  destruct (c_occurred (c_update now (t_ack (s_timer s)))); [|exact H3].
  destruct (c_count (c_update now (t_ack (s_timer s))) =? c_max (c_update now (t_ack (s_timer s))));
    [apply S7_handle_fault | apply S7_set_eof_flag]; exact H3.
Qed.
Lemma S7_handle_timeout now s : S7 s -> S7 (s_handle_timeout now s).
Proof.
  intros H. unfold Send.s_handle_timeout, c_limit_reached.
  destruct (s_phase s) eqn:Ep; try exact H; cbn [fst snd].
  - set (s1 := supd_inact (fun _ => c_update now (t_inact (s_timer s))) s).
    assert (H1 : S7 s1) by (unfold s1; s7_leaf; exact H). clearbody s1.
    destruct (c_count (c_update now (t_inact (s_timer s))) =? c_max (c_update now (t_inact (s_timer s)))); cbn [andb].
    + pose proof (S7_handle_fault now InactivityDetected s1 H1) as H2.
      destruct (negb (sphase_eqb (s_phase (s_handle_fault now InactivityDetected s1)) SendEof)
                || negb (tstate_eqb (s_state (s_handle_fault now InactivityDetected s1)) TActive));
        [exact H2|apply S7_ht_ack_eof; exact H2].
    + apply S7_ht_ack_eof; exact H1.
  - set (s1 := supd_inact (fun _ => c_update now (t_inact (s_timer s))) s).
    assert (H1 : S7 s1) by (unfold s1; s7_leaf; exact H). clearbody s1.
    destruct (c_count (c_update now (t_inact (s_timer s))) =? c_max (c_update now (t_inact (s_timer s))));
      [apply S7_abandon; exact H1|].
    unfold c_timeout_occurred. cbn [fst snd].
    set (s3 := supd_ack (fun _ => c_update now (t_ack (s_timer s1))) s1).
    assert (H3 : S7 s3) by (unfold s3; s7_leaf; exact H1). clearbody s3.
    destruct (c_occurred (c_update now (t_ack (s_timer s1)))); [|exact H3].
    destruct (c_count (c_update now (t_ack (s_timer s1))) =? c_max (c_update now (t_ack (s_timer s1))));
      [apply S7_abandon | apply S7_set_eof_flag]; exact H3.
Qed.

Lemma S7_process_pdu now p s : S7 s -> S7 (fst (s_process_pdu now p s)).
Proof.
  intros H. unfold Send.s_process_pdu.
  set (s0 := if sphase_eqb (s_phase s) SendEof && negb (ssuspended s) then supd_inact (c_reset now) s else s).
  assert (H0 : S7 s0) by (unfold s0; destruct (_ && _); [s7_leaf|]; exact H). clearbody s0. clear H.
  destruct (cfg_mode (s_cfg s0)); destruct p; cbn [fst]; try exact H0.
  - (* Finished, acknowledged: the phase becomes SFinished *)
    eapply (S7_out _ (set_s_phase SFinished (prepare_ack (set_s_fstat (fin_fs f) (set_s_dc (fin_dc f) s0)))));
      [ | reflexivity | reflexivity | reflexivity | reflexivity | reflexivity | reflexivity | reflexivity | exact I ].
    eapply (S7_phase s0); [exact H0 | reflexivity | reflexivity | reflexivity
                          | destruct H0 as (_ & _ & C & _); exact C | reflexivity
                          | cbn; unfold late_phase; split; discriminate | reflexivity].
  - (* ACK *)
    destruct (ack_dir a); cbn [fst]; exact H0.
  - (* NAK: the requests are cut to the file and to the segment size *)
    eapply (S7_naks s0); [exact H0 | reflexivity | reflexivity | reflexivity | reflexivity | | reflexivity | reflexivity].
    cbn. apply dedup_forall. apply Forall_app. split.
    + destruct H0 as (_ & _ & _ & D & _). exact D.
    + apply Forall_forall. intros x Hx. apply in_flat_map in Hx as (r & _ & Hr).
      destruct H0 as (A & B & _). rewrite A in Hr.
      pose proof (split_request_ok (cfg_seg (s_cfg s0)) (flen s0) r B) as Hf.
      rewrite Forall_forall in Hf. auto.
  - (* Finished, unacknowledged *)
    destruct (md_closure (s_meta s0)); cbn [fst]; [|exact H0].
    apply S7_shutdown. s7_leaf. exact H0.
Qed.


Lemma S7_intro (s s' : sstate) : S7 s -> s_meta s' = s_meta s -> s_cfg s' = s_cfg s -> s_file s' = s_file s ->
  s_pos s' <= flen s -> Forall (req_ok (cfg_seg (s_cfg s)) (flen s)) (s_naks s') ->
  (s_phase s' = SendData -> s_pos s' < flen s) -> (s_phase s' = SendMetadata -> s_pos s' = 0) ->
  Forall (fd_ok (s_file s) (cfg_seg (s_cfg s))) (s_out s') -> S7 s'.
Proof.
  unfold S7, flen. intros (A & B & C & D & E & E' & F) E1 E2 E3 E4 E5 E6 E7 E8.
  rewrite E1, E2, E3. splits; auto.
Qed.

Lemma prepare_eof_fields fl (s : sstate) :
  let s' := prepare_eof fl s in
  s_meta s' = s_meta s /\ s_cfg s' = s_cfg s /\ s_file s' = s_file s /\ s_naks s' = s_naks s /\
  s_phase s' = s_phase s /\ s_out s' = s_out s /\ (s_pos s' = s_pos s \/ s_pos s' = flen s).
Proof.
  cbn zeta. unfold Send.prepare_eof, Send.get_checksum, flen.
  destruct (s_cksum s); cbn [fst snd]; [cbn; splits; auto|].
  destruct (s_is_file_transfer s); cbn [fst snd]; [|cbn; splits; auto].
  destruct (md_ck (s_meta s)); cbn; splits; auto.
Qed.

(* entering SendEof: the EOF is prepared *)
Lemma S7_to_eof now fl (s : sstate) : S7 s -> S7 (enter_send_eof now (prepare_eof fl s)).
Proof.
  intros H. destruct (prepare_eof_fields fl s) as (A & B & C & D & E & F & G).
  eapply (S7_phase s); [exact H | exact A | exact B | exact C | | exact D
                       | cbn; unfold late_phase; split; discriminate | exact F].
  cbn. destruct H as (_ & _ & Hp & _). destruct G as [G|G]; rewrite G; [exact Hp|lia].
Qed.

Lemma S7_send_metadata s : S7 s -> S7 (send_metadata s).
Proof. intros H. unfold Send.send_metadata. s7_leaf. exact H. Qed.

Lemma S7_send_missing_data now s : S7 s -> S7 (fst (send_missing_data now s)).
Proof.
  intros H. unfold Send.send_missing_data. destruct (s_naks s) as [|[a b] t] eqn:En; [exact H|].
  assert (Hq : req_ok (cfg_seg (s_cfg s)) (flen s) (a, b) /\ Forall (req_ok (cfg_seg (s_cfg s)) (flen s)) t).
  { destruct H as (_ & _ & _ & D & _). rewrite En in D. inversion D; subst. auto. }
  destruct Hq as (Hab & Ht).
  set (s1 := supd_inact (c_restart now) (set_s_naks t s)).
  assert (H1 : S7 s1).
  { eapply (S7_naks s); [exact H | reflexivity | reflexivity | reflexivity | reflexivity | exact Ht | reflexivity | reflexivity]. }
  destruct (65535 <? b - a); cbn [fst]; [exact H1|].
  destruct ((a =? 0) && (b - a =? 0)) eqn:Em; cbn [fst]; [apply S7_send_metadata; exact H1|].
  (* a retransmission: non-empty range inside the file, at most one segment *)
  assert (Hr : a < b /\ b <= flen s /\ b - a <= cfg_seg (s_cfg s)).
  { destruct Hab as [[A B]|Hab]; [|exact Hab]. cbn in A, B. subst a b. cbn in Em. discriminate. }
  destruct Hr as (R1 & R2 & R3).
  unfold Send.send_file_segment.
  eapply (S7_intro s1); [exact H1 | reflexivity | reflexivity | reflexivity | | | | | ].
  - cbn. destruct H as (_ & _ & C & _). exact C.
  - cbn. destruct H1 as (_ & _ & _ & D & _). exact D.
  - cbn. destruct H as (_ & _ & _ & _ & E & _). exact E.
  - cbn. destruct H as (_ & _ & _ & _ & _ & E' & _). exact E'.
  - cbn. constructor; [|destruct H1 as (_ & _ & _ & _ & _ & _ & F); exact F].
    eapply fd_ok_slice with (len := b - a); [clear - R1; lia | exact R3 | unfold s1; cbn; unfold flen in R2; eapply N.lt_le_trans; eassumption | reflexivity].
Qed.

Lemma S7_send_eof now s : S7 s -> S7 (send_eof now s).
Proof.
  intros H. unfold Send.send_eof. destruct (s_eof s) as [[e [|]]|] eqn:E; try exact H.
  apply S7_set_eof_flag. s7_leaf. exact H.
Qed.
Lemma S7_send_prompt now s : S7 s -> S7 (send_prompt now s).
Proof. intros H. unfold Send.send_prompt. destruct (s_prompt s); [s7_leaf|]; exact H. Qed.
Lemma S7_send_ack now s : S7 s -> S7 (send_ack now s).
Proof. intros H. unfold Send.send_ack. destruct (s_ack s); [apply S7_shutdown; s7_leaf|]; exact H. Qed.

Lemma S7_send_pdu now s : S7 s -> S7 (fst (s_send_pdu now s)).
Proof.
  intros H. unfold Send.s_send_pdu.
  destruct (is_some (s_prompt s)); cbn [fst]; [apply S7_send_prompt; exact H|].
  destruct (s_phase s) eqn:Ep.
  - (* SendMetadata *)
    pose proof (S7_send_metadata s H) as H1.
    destruct (s_is_file_transfer (send_metadata s) && (0 <? md_size (s_meta (send_metadata s)))) eqn:Ef; cbn [fst].
    + apply andb_prop in Ef as [_ Ef]. apply N.ltb_lt in Ef. cbn in Ef.
      eapply (S7_intro (send_metadata s)); [exact H1 | reflexivity | reflexivity | reflexivity | | | | | ].
      * destruct H1 as (_ & _ & C & _). exact C.
      * destruct H1 as (_ & _ & _ & D & _). exact D.
      * intros _. cbn. destruct H as (A & _ & _ & _ & _ & E' & _). rewrite (E' Ep). unfold flen in *. cbn. lia.
      * cbn. discriminate.
      * destruct H1 as (_ & _ & _ & _ & _ & _ & F). exact F.
    + apply S7_to_eof. exact H1.
  - (* SendData *)
    destruct (negb (is_nil (s_naks s))).
    + pose proof (S7_send_missing_data now s H) as H1.
      destruct (send_missing_data now s) as [s1 r]. cbn [fst] in H1.
      destruct r; cbn [fst]; try exact H1.
      destruct (s_pos s1 =? N.of_nat (length (s_file s1))); cbn [fst]; [apply S7_to_eof|]; exact H1.
    + (* first pass: one segment at the cursor *)
      cbn [fst].
      assert (Hlt : s_pos s < flen s) by (destruct H as (_ & _ & _ & _ & E & _); auto).
      set (s1 := send_file_segment (s_pos s) (cfg_seg (s_cfg s)) s).
      pose proof (slice_length (s_file s) (s_pos s) (cfg_seg (s_cfg s))) as Hn.
      assert (Hw : S7 (set_s_phase SendEof s1) /\ (s_pos s1 <> flen s -> S7 s1)).
      { unfold s1, Send.send_file_segment. split; [|intros Hne].
        - eapply (S7_intro s); [exact H | reflexivity | reflexivity | reflexivity | | | | | ].
          + cbn. unfold flen in *. lia.
          + cbn. destruct H as (_ & _ & _ & D & _). exact D.
          + cbn. discriminate.
          + cbn. discriminate.
          + cbn. constructor; [|destruct H as (_ & _ & _ & _ & _ & _ & F); exact F].
            destruct H as (_ & B & _).
            eapply fd_ok_slice with (len := cfg_seg (s_cfg s)); [exact B | lia | exact Hlt | reflexivity].
        - eapply (S7_intro s); [exact H | reflexivity | reflexivity | reflexivity | | | | | ].
          + cbn. unfold flen in *. lia.
          + cbn. destruct H as (_ & _ & _ & D & _). exact D.
          + intros _. cbn in Hne |- *. unfold flen in *. lia.
          + cbn. rewrite Ep. discriminate.
          + cbn. constructor; [|destruct H as (_ & _ & _ & _ & _ & _ & F); exact F].
            destruct H as (_ & B & _).
            eapply fd_ok_slice with (len := cfg_seg (s_cfg s)); [exact B | lia | exact Hlt | reflexivity]. }
      destruct Hw as (Hw1 & Hw2).
      destruct (N.eqb_spec (s_pos s1) (N.of_nat (length (s_file s1)))) as [He|He]; cbn [fst].
      * destruct (prepare_eof_fields None s1) as (A & B & C & D & E & F & G).
        eapply (S7_phase (set_s_phase SendEof s1)); [exact Hw1 | exact A | exact B | exact C | | exact D
                               | cbn; unfold late_phase; split; discriminate | exact F].
        cbn. destruct G as [G|G]; rewrite G; unfold flen; [rewrite He|]; cbn; lia.
      * apply Hw2. exact He.
  - (* SendEof *)
    destruct (negb (is_nil (s_naks s))); [apply S7_send_missing_data; exact H|].
    pose proof (S7_send_eof now s H) as H1.
    set (s1 := send_eof now s) in *. clearbody s1.
    assert (H2 : S7 (if s_eof_ind s1 then set_s_eof_ind false (semit_ind IEoFSent s1) else s1)).
    { destruct (s_eof_ind s1); [s7_leaf|]; exact H1. }
    remember (if s_eof_ind s1 then _ else s1) as s2 eqn:E2. clear E2 H1.
    destruct (cfg_mode (s_cfg s2)); cbn [fst]; [exact H2|].
    destruct (md_closure (s_meta s2)); cbn [fst]; [exact H2|].
    apply S7_shutdown. s7_leaf. exact H2.
  - cbn [fst]. apply S7_send_eof; exact H.
  - cbn [fst]. apply S7_send_ack; exact H.
Qed.

(* C07: the invariant holds initially (truthful metadata: the size is the file's) and is kept by
   every operation; as every step starts with an empty output log, every file data PDU a step
   emits carries exactly the file's bytes at its offset, is non-empty, at most one segment long
   and lies inside the file *)
Lemma S7_init now cfg m file : md_size m = N.of_nat (length file) -> 0 < cfg_seg cfg -> S7 (s_new now cfg m file).
Proof.
  intros Hm Hs. unfold S7, s_new, flen. cbn. splits; auto; try lia; try discriminate.
  constructor; [exact I|constructor].
Qed.

Theorem S7_sstep now o s : S7 s -> S7 (fst (sstep now o s)).
Proof.
  intros H. unfold Send.sstep.
  assert (H0 : S7 (set_s_out [] s)).
  { destruct H as (A & B & C & D & E & E' & _). unfold S7, flen. cbn. splits; auto. }
  destruct o; cbn [fst].
  - apply S7_process_pdu; exact H0.
  - destruct (s_has_pdu_to_send _); [apply S7_send_pdu|]; exact H0.
  - destruct (s_until_timeout now _) as [[|?]|]; [apply S7_handle_timeout| |]; exact H0.
  - apply S7_cancel_; exact H0.
  - apply S7_suspend; exact H0.
  - apply S7_resume; exact H0.
  - unfold s_send_report. eapply (S7_out _ (set_s_out [] s)); [exact H0 | reflexivity | reflexivity | reflexivity | reflexivity | reflexivity | reflexivity | reflexivity | exact I].
  - apply S7_shutdown; exact H0.
  - exact H0.
Qed.


(* ================= C20: the sender's progress is the highest offset transmitted ================= *)
Definition fd_end (o : out) : N :=
  match o with
  | OPdu p => match o_payload p with PFileData off d => off + N.of_nat (length d) | _ => 0 end
  | OInd _ => 0
  end.
Fixpoint hi (l : list out) : N := match l with [] => 0 | o :: t => N.max (fd_end o) (hi t) end.

Definition HS (base : N) (s : sstate) : Prop := s_sent s = N.max base (hi (s_out s)).

Lemma HS_ext base (s s' : sstate) : HS base s -> s_sent s' = s_sent s -> s_out s' = s_out s -> HS base s'.
Proof. unfold HS. intros H E1 E2. rewrite E1, E2. exact H. Qed.
Lemma HS_out base o (s s' : sstate) : HS base s -> s_sent s' = s_sent s -> s_out s' = o :: s_out s ->
  fd_end o = 0 -> HS base s'.
Proof. unfold HS. intros H E1 E2 E3. rewrite E1, E2. cbn [hi]. rewrite E3, H. lia. Qed.

Ltac hs_leaf base :=
  lazymatch goal with
  | |- HS base ?t =>
      let b := strip_s t in
      first [ eapply (HS_ext base b); [ | reflexivity | reflexivity ]
            | eapply (HS_out base _ b); [ | reflexivity | reflexivity | reflexivity ] ]
  end.

Lemma HS_shutdown base now s : HS base s -> HS base (s_shutdown now s).
Proof. intros H. unfold s_shutdown. hs_leaf base. exact H. Qed.
Lemma HS_abandon base now s : HS base s -> HS base (s_abandon now s).
Proof. intros H. unfold s_abandon. apply HS_shutdown. hs_leaf base. exact H. Qed.
Lemma HS_suspend base now s : HS base s -> HS base (s_suspend now s).
Proof. intros H. unfold s_suspend. hs_leaf base. exact H. Qed.
Lemma HS_resume base now s : HS base s -> HS base (s_resume now s).
Proof. intros H. unfold s_resume. destruct (s_phase s); hs_leaf base; exact H. Qed.
Lemma HS_set_eof_flag base b s : HS base s -> HS base (set_eof_flag b s).
Proof. intros H. unfold set_eof_flag. destruct (s_eof s) as [[e f]|]; [hs_leaf base|]; exact H. Qed.
Lemma HS_prepare_eof base fl s : HS base s -> HS base (prepare_eof fl s).
Proof.
  intros H. unfold Send.prepare_eof, Send.get_checksum.
  destruct (s_cksum s); cbn [fst snd]; [hs_leaf base; exact H|].
  destruct (s_is_file_transfer s); cbn [fst snd]; [|hs_leaf base; exact H].
  destruct (md_ck (s_meta s)); hs_leaf base; exact H.
Qed.
Lemma HS_cancel_ base now c s : HS base s -> HS base (s_cancel_ now c s).
Proof. intros H. unfold Send.s_cancel_. apply HS_prepare_eof. hs_leaf base. exact H. Qed.
Lemma HS_handle_fault base now c s : HS base s -> HS base (s_handle_fault now c s).
Proof.
  intros H. unfold Send.s_handle_fault.
  assert (H1 : HS base (semit_ind (IFault c (s_sent (set_s_cond c s))) (set_s_cond c s))) by (hs_leaf base; exact H).
  destruct (handler _ c); [apply HS_cancel_ | apply HS_suspend | | apply HS_abandon]; exact H1.
Qed.
Lemma HS_ht_ack_eof base now s : HS base s -> HS base (ht_ack_eof cksum now s).
Proof.
  intros H. unfold ht_ack_eof, c_timeout_occurred. cbn [fst snd].
  set (s3 := supd_ack (fun _ => c_update now (t_ack (s_timer s))) s).
  assert (H3 : HS base s3) by (unfold s3; hs_leaf base; exact H). clearbody s3.
  destruct (c_occurred (c_update now (t_ack (s_timer s)))); [|exact H3].
  destruct (c_count (c_update now (t_ack (s_timer s))) =? c_max (c_update now (t_ack (s_timer s))));
    [apply HS_handle_fault | apply HS_set_eof_flag]; exact H3.
Qed.
Lemma HS_handle_timeout base now s : HS base s -> HS base (s_handle_timeout now s).
Proof.
  intros H. unfold Send.s_handle_timeout, c_limit_reached.
  destruct (s_phase s) eqn:Ep; try exact H; cbn [fst snd].
  - set (s1 := supd_inact (fun _ => c_update now (t_inact (s_timer s))) s).
    assert (H1 : HS base s1) by (unfold s1; hs_leaf base; exact H). clearbody s1.
    destruct (c_count (c_update now (t_inact (s_timer s))) =? c_max (c_update now (t_inact (s_timer s)))); cbn [andb].
    + pose proof (HS_handle_fault base now InactivityDetected s1 H1) as H2.
      destruct (negb (sphase_eqb (s_phase (s_handle_fault now InactivityDetected s1)) SendEof)
                || negb (tstate_eqb (s_state (s_handle_fault now InactivityDetected s1)) TActive));
        [exact H2|apply HS_ht_ack_eof; exact H2].
    + apply HS_ht_ack_eof; exact H1.
  - set (s1 := supd_inact (fun _ => c_update now (t_inact (s_timer s))) s).
    assert (H1 : HS base s1) by (unfold s1; hs_leaf base; exact H). clearbody s1.
    destruct (c_count (c_update now (t_inact (s_timer s))) =? c_max (c_update now (t_inact (s_timer s))));
      [apply HS_abandon; exact H1|].
    unfold c_timeout_occurred. cbn [fst snd].
    set (s3 := supd_ack (fun _ => c_update now (t_ack (s_timer s1))) s1).
    assert (H3 : HS base s3) by (unfold s3; hs_leaf base; exact H1). clearbody s3.
    destruct (c_occurred (c_update now (t_ack (s_timer s1)))); [|exact H3].
    destruct (c_count (c_update now (t_ack (s_timer s1))) =? c_max (c_update now (t_ack (s_timer s1))));
      [apply HS_abandon | apply HS_set_eof_flag]; exact H3.
Qed.
Lemma HS_process_pdu base now p s : HS base s -> HS base (fst (s_process_pdu now p s)).
Proof.
  intros H. unfold Send.s_process_pdu.
  set (s0 := if sphase_eqb (s_phase s) SendEof && negb (ssuspended s) then supd_inact (c_reset now) s else s).
  assert (H0 : HS base s0) by (unfold s0; destruct (_ && _); [hs_leaf base|]; exact H). clearbody s0. clear H.
  destruct (cfg_mode (s_cfg s0)); destruct p; cbn [fst]; try exact H0.
  - hs_leaf base. exact H0.
  - destruct (ack_dir a); cbn [fst]; exact H0.
  - destruct (md_closure (s_meta s0)); cbn [fst]; [|exact H0]. apply HS_shutdown. hs_leaf base. exact H0.
Qed.
Lemma HS_file_segment base off len s : HS base s -> HS base (send_file_segment off len s).
Proof.
  unfold HS, Send.send_file_segment. cbn. intros H. rewrite H. lia.
Qed.
Lemma HS_send_metadata base s : HS base s -> HS base (send_metadata s).
Proof. intros H. unfold Send.send_metadata. hs_leaf base. exact H. Qed.
Lemma HS_send_missing_data base now s : HS base s -> HS base (fst (send_missing_data now s)).
Proof.
  intros H. unfold Send.send_missing_data. destruct (s_naks s) as [|[a b] t]; [exact H|].
  set (s1 := supd_inact (c_restart now) (set_s_naks t s)).
  assert (H1 : HS base s1) by (unfold s1; hs_leaf base; exact H). clearbody s1.
  destruct (65535 <? b - a); cbn [fst]; [exact H1|].
  destruct ((a =? 0) && (b - a =? 0)); cbn [fst]; [apply HS_send_metadata; exact H1|].
  eapply (HS_ext base (send_file_segment a (b - a) s1)); [apply HS_file_segment; exact H1|reflexivity|reflexivity].
Qed.
Lemma HS_send_eof base now s : HS base s -> HS base (send_eof now s).
Proof.
  intros H. unfold Send.send_eof. destruct (s_eof s) as [[e [|]]|]; try exact H.
  apply HS_set_eof_flag. hs_leaf base. exact H.
Qed.
Lemma HS_send_pdu base now s : HS base s -> HS base (fst (s_send_pdu now s)).
Proof.
  intros H. unfold Send.s_send_pdu.
  destruct (is_some (s_prompt s)); cbn [fst].
  { unfold Send.send_prompt. destruct (s_prompt s); [hs_leaf base|]; exact H. }
  destruct (s_phase s).
  - pose proof (HS_send_metadata base s H) as H1.
    destruct (_ && _); cbn [fst]; [hs_leaf base; exact H1|].
    eapply (HS_ext base (prepare_eof None (send_metadata s))); [apply HS_prepare_eof; exact H1|reflexivity|reflexivity].
  - assert (H1 : HS base (fst (if negb (is_nil (s_naks s)) then send_missing_data now s
                               else (send_file_segment (s_pos s) (cfg_seg (s_cfg s)) s, ROk)))).
    { destruct (negb _); [apply HS_send_missing_data|apply HS_file_segment]; exact H. }
    destruct (if negb (is_nil (s_naks s)) then _ else _) as [s1 r]. cbn [fst] in H1.
    destruct r; cbn [fst]; try exact H1.
    destruct (_ =? _); cbn [fst]; [|exact H1].
    eapply (HS_ext base (prepare_eof None s1)); [apply HS_prepare_eof; exact H1|reflexivity|reflexivity].
  - destruct (negb _); [apply HS_send_missing_data; exact H|].
    pose proof (HS_send_eof base now s H) as H1. set (s1 := send_eof now s) in *. clearbody s1.
    assert (H2 : HS base (if s_eof_ind s1 then set_s_eof_ind false (semit_ind IEoFSent s1) else s1)).
    { destruct (s_eof_ind s1); [hs_leaf base|]; exact H1. }
    remember (if s_eof_ind s1 then _ else s1) as s2 eqn:E2. clear E2 H1.
    destruct (cfg_mode (s_cfg s2)); cbn [fst]; [exact H2|].
    destruct (md_closure (s_meta s2)); cbn [fst]; [exact H2|].
    apply HS_shutdown. hs_leaf base. exact H2.
  - cbn [fst]. apply HS_send_eof; exact H.
  - cbn [fst]. unfold Send.send_ack. destruct (s_ack s); [apply HS_shutdown; hs_leaf base|]; exact H.
Qed.

(* one step: the new progress is the old one or the highest end offset among the file data
   PDUs the step emitted, whichever is larger *)
Theorem sent_step now o s :
  let s' := fst (sstep now o s) in s_sent s' = N.max (s_sent s) (hi (s_out s')).
Proof.
  cbn zeta. unfold Send.sstep.
  assert (H0 : HS (s_sent s) (set_s_out [] s)) by (unfold HS; cbn; lia).
  destruct o; cbn [fst].
  - apply HS_process_pdu; exact H0.
  - destruct (s_has_pdu_to_send _); [apply HS_send_pdu|]; exact H0.
  - destruct (s_until_timeout now _) as [[|?]|]; [apply HS_handle_timeout| |]; exact H0.
  - apply HS_cancel_; exact H0.
  - apply HS_suspend; exact H0.
  - apply HS_resume; exact H0.
  - unfold s_send_report. eapply (HS_out _ _ (set_s_out [] s)); [exact H0|reflexivity|reflexivity|reflexivity].
  - apply HS_shutdown; exact H0.
  - exact H0.
Qed.

(* ================= C19 (sender): a suspended transaction is silent ================= *)
Definition squiet (o : out) : Prop :=
  match o with
  | OPdu _ => False
  | OInd (IFault _ _) => False
  | OInd _ => True
  end.

Theorem s_suspended_silent now o s : ssuspended s = true ->
  s_has_pdu_to_send s = false /\ s_until_timeout now s = None /\
  Forall squiet (s_out (fst (sstep now o s))).
Proof.
  intros Hs. unfold s_has_pdu_to_send, s_until_timeout. rewrite Hs. splits; try reflexivity.
  unfold Send.sstep.
  assert (Hs0 : ssuspended (set_s_out [] s) = true) by exact Hs.
  destruct o; cbn [fst].
  - unfold Send.s_process_pdu. rewrite Hs0. rewrite andb_false_r.
    destruct (cfg_mode _); destruct p; cbn [fst]; try constructor;
      repeat (destr_inner; cbn [fst]); cbn; repeat constructor.
  - unfold s_has_pdu_to_send. rewrite Hs0. constructor.
  - unfold s_until_timeout. rewrite Hs0. constructor.
  - unfold Send.s_cancel, Send.s_cancel_, Send.prepare_eof, Send.get_checksum.
    repeat (destr_inner; cbn [fst snd]); cbn; constructor.
  - cbn. repeat constructor.
  - unfold s_resume. destruct (s_phase _); cbn; repeat constructor.
  - cbn. repeat constructor.
  - cbn. constructor.
  - cbn. constructor.
Qed.


(* ================= C18 (sender): unacknowledged mode ================= *)
(* in unacknowledged mode the phase SFinished (ACK of Finished pending) is never entered *)
Definition SU (s : sstate) : Prop := cfg_mode (s_cfg s) = Unacked /\ s_phase s <> SFinished.
Lemma SU_ext (s s' : sstate) : SU s -> s_cfg s' = s_cfg s -> s_phase s' = s_phase s -> SU s'.
Proof. unfold SU. intros (A & B) E1 E2. rewrite E1, E2. auto. Qed.
Lemma SU_phase p (s s' : sstate) : SU s -> s_cfg s' = s_cfg s -> s_phase s' = p -> p <> SFinished -> SU s'.
Proof. unfold SU. intros (A & B) E1 E2 E3. rewrite E1, E2. auto. Qed.
Ltac su_leaf :=
  lazymatch goal with
  | |- SU ?t => let b := strip_s t in
      first [ eapply (SU_ext b); [ | reflexivity | reflexivity ]
            | eapply (SU_phase _ b); [ | reflexivity | reflexivity | discriminate ] ]
  end.
Lemma SU_shutdown now s : SU s -> SU (s_shutdown now s).
Proof. intros H. unfold s_shutdown. su_leaf. exact H. Qed.
Lemma SU_abandon now s : SU s -> SU (s_abandon now s).
Proof. intros H. unfold s_abandon. apply SU_shutdown. su_leaf. exact H. Qed.
Lemma SU_suspend now s : SU s -> SU (s_suspend now s).
Proof. intros H. unfold s_suspend. su_leaf. exact H. Qed.
Lemma SU_set_eof_flag b s : SU s -> SU (set_eof_flag b s).
Proof. intros H. unfold set_eof_flag. destruct (s_eof s) as [[e f]|]; [su_leaf|]; exact H. Qed.
Lemma SU_prepare_eof fl s : SU s -> SU (prepare_eof fl s).
Proof.
  intros H. unfold Send.prepare_eof, Send.get_checksum.
  destruct (s_cksum s); cbn [fst snd]; [su_leaf; exact H|].
  destruct (s_is_file_transfer s); cbn [fst snd]; [|su_leaf; exact H].
  destruct (md_ck (s_meta s)); su_leaf; exact H.
Qed.
Lemma SU_cancel_ now c s : SU s -> SU (s_cancel_ now c s).
Proof.
  intros H. unfold Send.s_cancel_. apply SU_prepare_eof.
  eapply (SU_phase SCancelled s); [exact H | reflexivity | reflexivity | discriminate].
Qed.
Lemma SU_handle_fault now c s : SU s -> SU (s_handle_fault now c s).
Proof.
  intros H. unfold Send.s_handle_fault.
  assert (H1 : SU (semit_ind (IFault c (s_sent (set_s_cond c s))) (set_s_cond c s))) by (su_leaf; exact H).
  destruct (handler _ c); [apply SU_cancel_ | apply SU_suspend | | apply SU_abandon]; exact H1.
Qed.
Lemma SU_ht_ack_eof now s : SU s -> SU (ht_ack_eof cksum now s).
Proof.
  intros H. unfold ht_ack_eof, c_timeout_occurred. cbn [fst snd].
  set (s3 := supd_ack (fun _ => c_update now (t_ack (s_timer s))) s).
  assert (H3 : SU s3) by (unfold s3; su_leaf; exact H). clearbody s3.
  destruct (c_occurred (c_update now (t_ack (s_timer s)))); [|exact H3].
  destruct (c_count (c_update now (t_ack (s_timer s))) =? c_max (c_update now (t_ack (s_timer s))));
    [apply SU_handle_fault | apply SU_set_eof_flag]; exact H3.
Qed.
Lemma SU_handle_timeout now s : SU s -> SU (s_handle_timeout now s).
Proof.
  intros H. unfold Send.s_handle_timeout, c_limit_reached.
  destruct (s_phase s) eqn:Ep; try exact H; cbn [fst snd].
  - set (s1 := supd_inact (fun _ => c_update now (t_inact (s_timer s))) s).
    assert (H1 : SU s1) by (unfold s1; su_leaf; exact H). clearbody s1.
    destruct (c_count (c_update now (t_inact (s_timer s))) =? c_max (c_update now (t_inact (s_timer s)))); cbn [andb].
    + pose proof (SU_handle_fault now InactivityDetected s1 H1) as H2.
      destruct (negb (sphase_eqb (s_phase (s_handle_fault now InactivityDetected s1)) SendEof)
                || negb (tstate_eqb (s_state (s_handle_fault now InactivityDetected s1)) TActive));
        [exact H2|apply SU_ht_ack_eof; exact H2].
    + apply SU_ht_ack_eof; exact H1.
  - set (s1 := supd_inact (fun _ => c_update now (t_inact (s_timer s))) s).
    assert (H1 : SU s1) by (unfold s1; su_leaf; exact H). clearbody s1.
    destruct (c_count (c_update now (t_inact (s_timer s))) =? c_max (c_update now (t_inact (s_timer s))));
      [apply SU_abandon; exact H1|].
    unfold c_timeout_occurred. cbn [fst snd].
    set (s3 := supd_ack (fun _ => c_update now (t_ack (s_timer s1))) s1).
    assert (H3 : SU s3) by (unfold s3; su_leaf; exact H1). clearbody s3.
    destruct (c_occurred (c_update now (t_ack (s_timer s1)))); [|exact H3].
    destruct (c_count (c_update now (t_ack (s_timer s1))) =? c_max (c_update now (t_ack (s_timer s1))));
      [apply SU_abandon | apply SU_set_eof_flag]; exact H3.
Qed.
Lemma SU_process_pdu now p s : SU s -> SU (fst (s_process_pdu now p s)).
Proof.
  intros H. unfold Send.s_process_pdu.
  set (s0 := if sphase_eqb (s_phase s) SendEof && negb (ssuspended s) then supd_inact (c_reset now) s else s).
  assert (H0 : SU s0) by (unfold s0; destruct (_ && _); [su_leaf|]; exact H). clearbody s0. clear H.
  destruct H0 as (A & B). rewrite A. assert (H0 : SU s0) by (split; assumption).
  destruct p; cbn [fst]; try exact H0.
  destruct (md_closure (s_meta s0)); cbn [fst]; [|exact H0]. apply SU_shutdown. su_leaf. exact H0.
Qed.
Lemma SU_send_missing_data now s : SU s -> SU (fst (send_missing_data now s)).
Proof.
  intros H. unfold Send.send_missing_data. destruct (s_naks s) as [|[a b] t]; [exact H|].
  destruct (65535 <? b - a); cbn [fst]; [su_leaf; exact H|].
  destruct ((a =? 0) && (b - a =? 0)); cbn [fst]; unfold Send.send_metadata, Send.send_file_segment; su_leaf; exact H.
Qed.
Lemma SU_send_pdu now s : SU s -> SU (fst (s_send_pdu now s)).
Proof.
  intros H. unfold Send.s_send_pdu.
  destruct (is_some (s_prompt s)); cbn [fst].
  { unfold Send.send_prompt. destruct (s_prompt s); [su_leaf|]; exact H. }
  destruct (s_phase s) eqn:Ep.
  - unfold Send.send_metadata. destruct (_ && _); cbn [fst].
    + eapply (SU_phase SendData s); [exact H | reflexivity | reflexivity | discriminate].
    + eapply (SU_phase SendEof (prepare_eof None (semit_pdu (PMetadata (s_meta s)) s)));
        [apply SU_prepare_eof; su_leaf; exact H | reflexivity | reflexivity | discriminate].
  - assert (H1 : SU (fst (if negb (is_nil (s_naks s)) then send_missing_data now s
                               else (send_file_segment (s_pos s) (cfg_seg (s_cfg s)) s, ROk)))).
    { destruct (negb _); [apply SU_send_missing_data; exact H|]. cbn [fst]. unfold Send.send_file_segment. su_leaf. exact H. }
    destruct (if negb (is_nil (s_naks s)) then _ else _) as [s1 r]. cbn [fst] in H1.
    destruct r; cbn [fst]; try exact H1.
    destruct (_ =? _); cbn [fst]; [|exact H1].
    eapply (SU_phase SendEof (prepare_eof None s1)); [apply SU_prepare_eof; exact H1 | reflexivity | reflexivity | discriminate].
  - destruct (negb _); [apply SU_send_missing_data; exact H|].
    assert (H1 : SU (send_eof now s)).
    { unfold Send.send_eof. destruct (s_eof s) as [[e [|]]|]; try exact H. apply SU_set_eof_flag. su_leaf. exact H. }
    set (s1 := send_eof now s) in *. clearbody s1.
    assert (H2 : SU (if s_eof_ind s1 then set_s_eof_ind false (semit_ind IEoFSent s1) else s1)).
    { destruct (s_eof_ind s1); [su_leaf|]; exact H1. }
    remember (if s_eof_ind s1 then _ else s1) as s2 eqn:E2. clear E2 H1.
    destruct (cfg_mode (s_cfg s2)); cbn [fst]; [exact H2|].
    destruct (md_closure (s_meta s2)); cbn [fst]; [exact H2|].
    apply SU_shutdown. su_leaf. exact H2.
  - cbn [fst]. unfold Send.send_eof. destruct (s_eof s) as [[e [|]]|]; try exact H. apply SU_set_eof_flag. su_leaf. exact H.
  - destruct H as (_ & B). contradiction.
Qed.
Theorem SU_sstep now o s : SU s -> SU (fst (sstep now o s)).
Proof.
  intros H. unfold Send.sstep.
  assert (H0 : SU (set_s_out [] s)) by (su_leaf; exact H).
  destruct o; cbn [fst].
  - apply SU_process_pdu; exact H0.
  - destruct (s_has_pdu_to_send _); [apply SU_send_pdu|]; exact H0.
  - destruct (s_until_timeout now _) as [[|?]|]; [apply SU_handle_timeout| |]; exact H0.
  - apply SU_cancel_; exact H0.
  - apply SU_suspend; exact H0.
  - unfold s_resume. destruct (s_phase _); su_leaf; exact H0.
  - unfold s_send_report. su_leaf. exact H0.
  - apply SU_shutdown; exact H0.
  - su_leaf. exact H0.
Qed.
Lemma SU_init now cfg m file : cfg_mode cfg = Unacked -> SU (s_new now cfg m file).
Proof. intros H. unfold SU, s_new. cbn. split; [exact H|discriminate]. Qed.

(* what the sender may emit in unacknowledged mode: Metadata, file data, EOF (and a Prompt) *)
Definition oneway_pdu (o : out) : Prop :=
  match o with
  | OPdu p => match o_payload p with
              | PMetadata _ | PFileData _ _ | PEof _ | PPrompt _ => True
              | _ => False
              end
  | OInd _ => True
  end.
Theorem sender_oneway now s : SU s -> Forall oneway_pdu (s_out s) -> Forall oneway_pdu (s_out (fst (s_send_pdu now s))).
Proof.
  intros (A & B) Ho. unfold Send.s_send_pdu.
  destruct (is_some (s_prompt s)); cbn [fst].
  { unfold Send.send_prompt. destruct (s_prompt s); cbn; [constructor; [exact I|]|]; exact Ho. }
  destruct (s_phase s) eqn:Ep; try contradiction.
  - unfold Send.send_metadata. destruct (_ && _); cbn [fst].
    + cbn. constructor; [exact I|exact Ho].
    + destruct (prepare_eof_fields None (semit_pdu (PMetadata (s_meta s)) s)) as (_ & _ & _ & _ & _ & F & _).
      unfold enter_send_eof; cbn [s_out set_s_phase supd_inact set_s_timer]. rewrite F. cbn. constructor; [exact I|exact Ho].
  - assert (H1 : Forall oneway_pdu (s_out (fst (if negb (is_nil (s_naks s)) then send_missing_data now s
                               else (send_file_segment (s_pos s) (cfg_seg (s_cfg s)) s, ROk))))).
    { destruct (negb _).
      - unfold Send.send_missing_data. destruct (s_naks s) as [|[a b] t]; [exact Ho|].
        destruct (65535 <? b - a); cbn [fst]; [exact Ho|].
        destruct ((a =? 0) && (b - a =? 0)); cbn; constructor; try exact I; exact Ho.
      - cbn. constructor; [exact I|exact Ho]. }
    destruct (if negb (is_nil (s_naks s)) then _ else _) as [s1 r]. cbn [fst] in H1.
    destruct r; cbn [fst]; try exact H1.
    destruct (_ =? _); cbn [fst]; [|exact H1].
    destruct (prepare_eof_fields None s1) as (_ & _ & _ & _ & _ & F & _). unfold enter_send_eof; cbn [s_out set_s_phase supd_inact set_s_timer]. rewrite F. exact H1.
  - destruct (negb _).
    + unfold Send.send_missing_data. destruct (s_naks s) as [|[a b] t]; [exact Ho|].
      destruct (65535 <? b - a); cbn [fst]; [exact Ho|].
      destruct ((a =? 0) && (b - a =? 0)); cbn; constructor; try exact I; exact Ho.
    + assert (H1 : Forall oneway_pdu (s_out (send_eof now s))).
      { unfold Send.send_eof, set_eof_flag. destruct (s_eof s) as [[e [|]]|] eqn:Ee; try exact Ho.
        cbn [s_eof semit_pdu set_s_out supd_ack set_s_timer]. rewrite Ee. cbn. constructor; [exact I|exact Ho]. }
      set (s1 := send_eof now s) in *. clearbody s1.
      set (s2 := if s_eof_ind s1 then set_s_eof_ind false (semit_ind IEoFSent s1) else s1).
      assert (H2 : Forall oneway_pdu (s_out s2)).
      { unfold s2. destruct (s_eof_ind s1); cbn; [constructor; [exact I|]|]; exact H1. }
      clearbody s2. destruct (cfg_mode (s_cfg s2)); cbn [fst]; [exact H2|].
      destruct (md_closure (s_meta s2)); cbn [fst]; [exact H2|]. cbn. constructor; [exact I|exact H2].
  - cbn [fst]. unfold Send.send_eof, set_eof_flag. destruct (s_eof s) as [[e [|]]|] eqn:Ee; try exact Ho.
    cbn [s_eof semit_pdu set_s_out supd_ack set_s_timer]. rewrite Ee. cbn. constructor; [exact I|exact Ho].
Qed.

(* closure: after the (first) EOF the sender stays open iff closure was requested *)
Theorem sender_eof_closure now s e : cfg_mode (s_cfg s) = Unacked -> s_phase s = SendEof ->
  s_prompt s = None -> s_naks s = [] -> s_eof s = Some (e, true) ->
  let s' := fst (s_send_pdu now s) in
  In (OPdu (mkOpdu true (payload_len (s_cfg s) resp_len req_len (PEof e)) (cfg_dst (s_cfg s)) (PEof e))) (s_out s') /\
  (md_closure (s_meta s) = true -> s_state s' = s_state s) /\
  (md_closure (s_meta s) = false -> s_state s' = TTerminated).
Proof.
  intros Hm Hp Hpr Hn He. cbn zeta. unfold Send.s_send_pdu. rewrite Hpr, Hp, Hn. cbn [is_some is_nil negb].
  unfold Send.send_eof. rewrite He. unfold set_eof_flag.
  cbn [s_eof semit_pdu set_s_out supd_ack set_s_timer]. rewrite He.
  match goal with |- context [s_eof_ind ?x] => set (s1 := x) end.
  assert (F1 : s_cfg s1 = s_cfg s) by reflexivity.
  assert (F2 : s_meta s1 = s_meta s) by reflexivity.
  assert (F3 : s_state s1 = s_state s) by reflexivity.
  assert (F4 : In (OPdu (mkOpdu true (payload_len (s_cfg s) resp_len req_len (PEof e)) (cfg_dst (s_cfg s)) (PEof e))) (s_out s1))
    by (left; reflexivity).
  clearbody s1.
  set (s2 := if s_eof_ind s1 then set_s_eof_ind false (semit_ind IEoFSent s1) else s1).
  assert (G1 : s_cfg s2 = s_cfg s) by (unfold s2; destruct (s_eof_ind s1); exact F1).
  assert (G2 : s_meta s2 = s_meta s) by (unfold s2; destruct (s_eof_ind s1); exact F2).
  assert (G3 : s_state s2 = s_state s) by (unfold s2; destruct (s_eof_ind s1); exact F3).
  assert (G4 : In (OPdu (mkOpdu true (payload_len (s_cfg s) resp_len req_len (PEof e)) (cfg_dst (s_cfg s)) (PEof e))) (s_out s2))
    by (unfold s2; destruct (s_eof_ind s1); [right|]; exact F4).
  clearbody s2. rewrite G1, Hm, G2.
  destruct (md_closure (s_meta s)); cbn [fst]; splits; auto; try discriminate; try (intros; congruence).
  cbn. right. exact G4.
Qed.

(* ... and the Finished PDU ends it, its outcome reported to the user *)
Theorem sender_finished_unacked now s f : cfg_mode (s_cfg s) = Unacked -> md_closure (s_meta s) = true ->
  let s' := fst (s_process_pdu now (PFinished f) s) in
  s_state s' = TTerminated /\
  exists r, In (OInd (IFinished r (fin_fs f) (fin_dc f) (fin_resps f))) (s_out s') /\ trp_cond r = fin_cond f.
Proof.
  intros Hm Hc. cbn zeta. unfold Send.s_process_pdu.
  set (s0 := if sphase_eqb (s_phase s) SendEof && negb (ssuspended s) then supd_inact (c_reset now) s else s).
  assert (E1 : cfg_mode (s_cfg s0) = Unacked) by (unfold s0; destruct (_ && _); exact Hm).
  assert (E2 : md_closure (s_meta s0) = true) by (unfold s0; destruct (_ && _); exact Hc).
  rewrite E1, E2. cbn. split; [reflexivity|]. eexists. split; [left; reflexivity|reflexivity].
Qed.


(* ================= C03 (sender): an active transaction is never stuck ================= *)
Definition ack_run (s : sstate) : bool := negb (c_paused (t_ack (s_timer s))).
Definition inact_run (s : sstate) : bool := negb (c_paused (t_inact (s_timer s))).
Definition alive (s : sstate) : bool :=
  match s_phase s with
  | SendMetadata | SendData | SFinished => true
  | SendEof => eof_flag s || negb (is_nil (s_naks s)) || ack_run s || inact_run s
  | SCancelled => eof_flag s || ack_run s || inact_run s
  end.
Definition SL (s : sstate) : Prop :=
  (s_phase s = SFinished -> s_state s <> TTerminated -> is_some (s_ack s) = true) /\
  (s_state s = TActive -> alive s = true) /\
  (s_state s = TActive -> s_phase s = SCancelled -> inact_run s = true).

Lemma SL_ext (s s' : sstate) : SL s -> s_state s' = s_state s -> s_phase s' = s_phase s -> s_eof s' = s_eof s ->
  s_timer s' = s_timer s -> s_ack s' = s_ack s -> s_naks s' = s_naks s -> SL s'.
Proof.
  unfold SL, alive, eof_flag, ack_run, inact_run. intros (A & B & C) E1 E2 E3 E4 E5 E6.
  rewrite E1, E2, E3, E4, E5, E6. auto.
Qed.
Lemma SL_dead (s' : sstate) : s_state s' = TTerminated -> SL s'.
Proof. unfold SL. intros H. rewrite H. splits; [intros _ Hn; congruence|discriminate|discriminate]. Qed.
Lemma SL_susp (s s' : sstate) : SL s -> s_state s' = TSuspended -> s_phase s' = s_phase s -> s_ack s' = s_ack s ->
  s_state s <> TTerminated -> SL s'.
Proof.
  unfold SL. intros (A & _) E1 E2 E3 Hn. rewrite E1, E2, E3.
  splits; [intros Hp _; apply A; assumption|discriminate|discriminate].
Qed.
Lemma SL_alive (s' : sstate) : (s_phase s' = SFinished -> is_some (s_ack s') = true) -> alive s' = true ->
  (s_phase s' = SCancelled -> inact_run s' = true) -> SL s'.
Proof. unfold SL. intros A B C. splits; [intros Hp _; apply A; exact Hp|intros _; exact B|intros _; exact C]. Qed.
(* SL is monotone in what keeps the transaction alive *)
Lemma SL_mono (s s' : sstate) : SL s -> s_state s' = s_state s -> s_phase s' = s_phase s -> s_ack s' = s_ack s ->
  (eof_flag s = true -> eof_flag s' = true) -> (is_nil (s_naks s) = false -> is_nil (s_naks s') = false) ->
  (ack_run s = true -> ack_run s' = true) -> (inact_run s = true -> inact_run s' = true) -> SL s'.
Proof.
  unfold SL, alive. intros (A & B & C) E1 E2 E3 M1 M2 M3 M4. rewrite E1, E2, E3. splits; auto.
  intros Ha. specialize (B Ha). destruct (s_phase s); auto.
  - apply orb_true_iff in B as [B|B]; [|rewrite (M4 B), !orb_true_r; reflexivity].
    apply orb_true_iff in B as [B|B]; [|rewrite (M3 B), !orb_true_r; reflexivity].
    apply orb_true_iff in B as [B|B]; [rewrite (M1 B); reflexivity|].
    apply negb_true_iff in B. rewrite (M2 B). cbn. rewrite !orb_true_r. reflexivity.
  - apply orb_true_iff in B as [B|B]; [|rewrite (M4 B), !orb_true_r; reflexivity].
    apply orb_true_iff in B as [B|B]; [rewrite (M1 B); reflexivity|rewrite (M3 B), !orb_true_r; reflexivity].
Qed.
Ltac sl_leaf :=
  lazymatch goal with
  | |- SL ?t => let b := strip_s t in eapply (SL_ext b); [ | reflexivity ..]
  end.

Lemma run_update now c : negb (c_paused (c_update now c)) = negb (c_paused c).
Proof. rewrite c_update_paused_eq. reflexivity. Qed.
Lemma prepare_eof_flag fl s : eof_flag (prepare_eof fl s) = true.
Proof.
  unfold Send.prepare_eof, Send.get_checksum, eof_flag.
  destruct (s_cksum s); [reflexivity|]. destruct (s_is_file_transfer s); [destruct (md_ck (s_meta s))|]; reflexivity.
Qed.
Lemma prepare_eof_timer fl s : s_timer (prepare_eof fl s) = s_timer s.
Proof.
  unfold Send.prepare_eof, Send.get_checksum.
  destruct (s_cksum s); [reflexivity|]. destruct (s_is_file_transfer s); [destruct (md_ck (s_meta s))|]; reflexivity.
Qed.
Lemma eof_flag_set_true s : eof_flag s = true -> eof_flag (set_eof_flag true s) = true.
Proof. unfold eof_flag, set_eof_flag. destruct (s_eof s) as [[e [|]]|]; intros H; try discriminate; reflexivity. Qed.
Lemma set_eof_flag_fields b s : s_state (set_eof_flag b s) = s_state s /\ s_phase (set_eof_flag b s) = s_phase s /\
  s_ack (set_eof_flag b s) = s_ack s /\ s_naks (set_eof_flag b s) = s_naks s /\ s_timer (set_eof_flag b s) = s_timer s.
Proof. unfold set_eof_flag. destruct (s_eof s) as [[e f]|]; cbn; auto. Qed.

Lemma SL_shutdown now s : SL (s_shutdown now s).
Proof. apply SL_dead. reflexivity. Qed.
Lemma SL_abandon now s : SL (s_abandon now s).
Proof. unfold s_abandon. apply SL_shutdown. Qed.
Lemma SL_suspend now s : SL s -> s_state s <> TTerminated -> SL (s_suspend now s).
Proof. intros H Hl. eapply (SL_susp s); [exact H | reflexivity | reflexivity | reflexivity | exact Hl]. Qed.
Lemma SL_resume now s : SL s -> s_state s <> TTerminated -> SL (s_resume now s).
Proof.
  intros (A & B & C) Hl.
  assert (E1 : s_phase (s_resume now s) = s_phase s) by (unfold s_resume; destruct (s_phase s) eqn:Ep; cbn; rewrite ?Ep; reflexivity).
  assert (E2 : s_ack (s_resume now s) = s_ack s) by (unfold s_resume; destruct (s_phase s) eqn:Ep; cbn; reflexivity).
  apply SL_alive.
  - rewrite E1, E2. intros Hp. apply A; assumption.
  - unfold alive. rewrite E1. unfold s_resume, ack_run, inact_run, eof_flag.
    destruct (s_phase s) eqn:Ep; cbn; rewrite ?orb_true_r; reflexivity.
  - rewrite E1. intros Ep. unfold s_resume, inact_run. rewrite Ep. reflexivity.
Qed.
Lemma SL_set_eof_true s : SL s -> SL (set_eof_flag true s).
Proof.
  intros H. destruct (set_eof_flag_fields true s) as (A & B & C & D & E).
  eapply (SL_mono s); [exact H | exact A | exact B | exact C | | rewrite D; auto | | ].
  - apply eof_flag_set_true.
  - unfold ack_run. rewrite E. auto.
  - unfold inact_run. rewrite E. auto.
Qed.
Lemma SL_cancel_ now c s : SL (s_cancel_ now c s).
Proof.
  unfold Send.s_cancel_.
  set (x := set_s_phase SCancelled (set_s_cond c (supd_inact (c_restart now) s))).
  destruct (prepare_eof_fields (Some (cfg_src (s_cfg x))) x) as (_ & _ & _ & _ & E & _).
  pose proof (prepare_eof_timer (Some (cfg_src (s_cfg x))) x) as T.
  pose proof (prepare_eof_flag (Some (cfg_src (s_cfg x))) x) as F.
  apply SL_alive.
  - rewrite E. cbn. discriminate.
  - unfold alive. rewrite E. cbn [s_phase x set_s_phase]. rewrite F. reflexivity.
  - intros _. unfold inact_run. rewrite T. reflexivity.
Qed.
Lemma SL_handle_fault now c s : SL s -> s_state s <> TTerminated -> SL (s_handle_fault now c s).
Proof.
  intros H Hl. unfold Send.s_handle_fault.
  assert (H1 : SL (semit_ind (IFault c (s_sent (set_s_cond c s))) (set_s_cond c s))) by (sl_leaf; exact H).
  destruct (handler _ c); [apply SL_cancel_ | apply SL_suspend; [exact H1|exact Hl] | exact H1 | apply SL_abandon].
Qed.

Lemma SL_ht_ack_eof now s : SL s -> s_state s <> TTerminated -> SL (ht_ack_eof cksum now s).
Proof.
  intros H Hl. unfold ht_ack_eof, c_timeout_occurred. cbn [fst snd].
  set (s3 := supd_ack (fun _ => c_update now (t_ack (s_timer s))) s).
  assert (H3 : SL s3).
  { eapply (SL_mono s); [exact H | reflexivity | reflexivity | reflexivity | auto | auto | | auto].
    unfold ack_run, s3. cbn. rewrite run_update. auto. }
  assert (Hl3 : s_state s3 <> TTerminated) by exact Hl. clearbody s3.
  destruct (c_occurred (c_update now (t_ack (s_timer s)))); [|exact H3].
  destruct (c_count (c_update now (t_ack (s_timer s))) =? c_max (c_update now (t_ack (s_timer s))));
    [apply SL_handle_fault; assumption | apply SL_set_eof_true; exact H3].
Qed.

Lemma SL_handle_timeout now s : SL s -> s_state s <> TTerminated -> SL (s_handle_timeout now s).
Proof.
  intros H Hl. unfold Send.s_handle_timeout, c_limit_reached.
  destruct (s_phase s) eqn:Ep; try exact H; cbn [fst snd].
  - set (s1 := supd_inact (fun _ => c_update now (t_inact (s_timer s))) s).
    assert (H1 : SL s1).
    { eapply (SL_mono s); [exact H | reflexivity | reflexivity | reflexivity | auto | auto | auto |].
      unfold inact_run, s1. cbn. rewrite run_update. auto. }
    assert (Hl1 : s_state s1 <> TTerminated) by exact Hl. clearbody s1.
    destruct (c_count (c_update now (t_inact (s_timer s))) =? c_max (c_update now (t_inact (s_timer s)))); cbn [andb].
    + pose proof (SL_handle_fault now InactivityDetected s1 H1 Hl1) as H2.
      destruct (negb (sphase_eqb (s_phase (s_handle_fault now InactivityDetected s1)) SendEof)
                || negb (tstate_eqb (s_state (s_handle_fault now InactivityDetected s1)) TActive)) eqn:Eg; [exact H2|].
      apply SL_ht_ack_eof; [exact H2|].
      apply orb_false_iff in Eg as (_ & Eg). apply negb_false_iff in Eg.
      destruct (s_state (s_handle_fault now InactivityDetected s1)); cbn in Eg; congruence.
    + apply SL_ht_ack_eof; assumption.
  - set (s1 := supd_inact (fun _ => c_update now (t_inact (s_timer s))) s).
    assert (H1 : SL s1).
    { eapply (SL_mono s); [exact H | reflexivity | reflexivity | reflexivity | auto | auto | auto |].
      unfold inact_run, s1. cbn. rewrite run_update. auto. }
    clearbody s1.
    destruct (c_count (c_update now (t_inact (s_timer s))) =? c_max (c_update now (t_inact (s_timer s))));
      [apply SL_abandon|].
    unfold c_timeout_occurred. cbn [fst snd].
    set (s3 := supd_ack (fun _ => c_update now (t_ack (s_timer s1))) s1).
    assert (H3 : SL s3).
    { eapply (SL_mono s1); [exact H1 | reflexivity | reflexivity | reflexivity | auto | auto | | auto].
      unfold ack_run, s3. cbn. rewrite run_update. auto. }
    clearbody s3.
    destruct (c_occurred (c_update now (t_ack (s_timer s1)))); [|exact H3].
    destruct (c_count (c_update now (t_ack (s_timer s1))) =? c_max (c_update now (t_ack (s_timer s1))));
      [apply SL_abandon | apply SL_set_eof_true; exact H3].
Qed.


Lemma SL_process_pdu now p s : SL s -> s_state s <> TTerminated -> SL (fst (s_process_pdu now p s)).
Proof.
  intros H Hl. unfold Send.s_process_pdu.
  set (g := sphase_eqb (s_phase s) SendEof && negb (ssuspended s)).
  set (s0 := if g then supd_inact (c_reset now) s else s).
  assert (H0 : SL s0).
  { unfold s0. destruct g; [|exact H].
    eapply (SL_mono s); [exact H | reflexivity | reflexivity | reflexivity | auto | auto | auto |]. intros _. reflexivity. }
  assert (Hl0 : s_state s0 <> TTerminated) by (unfold s0; destruct g; exact Hl).
  (* in SendEof and not suspended the inactivity timer has just been re-armed *)
  assert (Hin : s_phase s0 = SendEof -> s_state s0 = TActive -> inact_run s0 = true).
  { unfold s0, g. intros Hp Ha. destruct (sphase_eqb (s_phase s) SendEof) eqn:E1; cbn [andb].
    - destruct (ssuspended s) eqn:E2; cbn [negb]; [|reflexivity].
      unfold ssuspended in E2. cbn in Ha. rewrite Ha in E2. discriminate.
    - cbn in Hp. rewrite Hp in E1. discriminate. }
  clearbody s0. clear H Hl g.
  destruct (cfg_mode (s_cfg s0)); destruct p; cbn [fst]; try exact H0.
  - (* Finished, acknowledged *)
    apply SL_alive; cbn; auto; discriminate.
  - (* ACK *)
    destruct (ack_dir a); cbn [fst]; try exact H0.
    destruct H0 as (A & B & C). unfold SL. cbn [s_state s_phase s_ack supd_ack set_s_timer]. splits; auto.
    + intros Ha. specialize (B Ha). unfold alive in *. cbn [s_phase supd_ack set_s_timer].
      destruct (s_phase s0) eqn:Ep; auto.
      * unfold inact_run in *. cbn. rewrite (Hin eq_refl Ha). rewrite !orb_true_r. reflexivity.
      * unfold inact_run in *. cbn. rewrite (C Ha eq_refl). rewrite !orb_true_r. reflexivity.
  - (* NAK *)
    eapply (SL_mono s0); [exact H0 | reflexivity | reflexivity | reflexivity | auto | | auto | auto].
    cbn. intros Hn. destruct (s_naks s0) as [|x t] eqn:En; [discriminate|].
    unfold dedup. cbn [app dedup_acc existsb]. reflexivity.
  - (* Finished, unacknowledged *)
    destruct (md_closure (s_meta s0)); cbn [fst]; [apply SL_shutdown|exact H0].
Qed.

Lemma SL_send_missing_data now s : SL s -> SL (fst (send_missing_data now s)).
Proof.
  intros H. unfold Send.send_missing_data. destruct (s_naks s) as [|[a b] t] eqn:En; [exact H|].
  assert (H1 : SL (supd_inact (c_restart now) (set_s_naks t s))).
  { destruct H as (A & B & C). unfold SL. cbn [s_state s_phase s_ack supd_inact set_s_naks set_s_timer]. splits; auto.
    - intros Ha. unfold alive, inact_run. cbn. destruct (s_phase s); rewrite ?orb_true_r; reflexivity. }
  destruct (65535 <? b - a); cbn [fst]; [exact H1|].
  destruct ((a =? 0) && (b - a =? 0)); cbn [fst]; unfold Send.send_metadata, Send.send_file_segment;
    (eapply (SL_ext (supd_inact (c_restart now) (set_s_naks t s))); [exact H1 | reflexivity ..]).
Qed.

Lemma SL_send_pdu now s : SL s -> s_state s <> TTerminated -> SL (fst (s_send_pdu now s)).
Proof.
  intros H Hl. unfold Send.s_send_pdu.
  destruct (is_some (s_prompt s)); cbn [fst].
  { unfold Send.send_prompt. destruct (s_prompt s); [|exact H].
    eapply (SL_mono s); [exact H | reflexivity | reflexivity | reflexivity | auto | auto | | auto]. intros _. reflexivity. }
  destruct (s_phase s) eqn:Ep.
  - (* SendMetadata *)
    unfold Send.send_metadata. destruct (_ && _); cbn [fst].
    + apply SL_alive; cbn; auto; discriminate.
    + unfold enter_send_eof. apply SL_alive; try (cbn; discriminate).
      unfold alive. cbn [s_phase supd_inact set_s_timer set_s_phase].
      change (eof_flag (supd_inact (c_pause now) (supd_inact (c_reset now) (set_s_phase SendEof (prepare_eof None (semit_pdu (PMetadata (s_meta s)) s))))))
        with (eof_flag (prepare_eof None (semit_pdu (PMetadata (s_meta s)) s))).
      rewrite prepare_eof_flag. reflexivity.
  - (* SendData *)
    assert (H1 : SL (fst (if negb (is_nil (s_naks s)) then send_missing_data now s
                          else (send_file_segment (s_pos s) (cfg_seg (s_cfg s)) s, ROk))) /\
                 s_phase (fst (if negb (is_nil (s_naks s)) then send_missing_data now s
                          else (send_file_segment (s_pos s) (cfg_seg (s_cfg s)) s, ROk))) = SendData).
    { destruct (negb _).
      - split; [apply SL_send_missing_data; exact H|].
        unfold Send.send_missing_data. destruct (s_naks s) as [|[a b] t]; [exact Ep|].
        destruct (65535 <? b - a); cbn [fst]; [exact Ep|]. destruct (_ && _); cbn; exact Ep.
      - cbn [fst]. split; [unfold Send.send_file_segment; sl_leaf; exact H | exact Ep]. }
    destruct (if negb (is_nil (s_naks s)) then _ else _) as [s1 r]. cbn [fst] in H1. destruct H1 as (H1 & Ep1).
    destruct r; cbn [fst]; try exact H1.
    destruct (_ =? _); cbn [fst]; [|exact H1].
    unfold enter_send_eof. apply SL_alive; try (cbn; discriminate).
    unfold alive. cbn [s_phase supd_inact set_s_timer set_s_phase].
    change (eof_flag (supd_inact (c_pause now) (supd_inact (c_reset now) (set_s_phase SendEof (prepare_eof None s1)))))
      with (eof_flag (prepare_eof None s1)).
    rewrite prepare_eof_flag. reflexivity.
  - (* SendEof *)
    destruct (negb (is_nil (s_naks s))); [apply SL_send_missing_data; exact H|].
    assert (H1 : SL (send_eof now s) /\ s_state (send_eof now s) = s_state s).
    { unfold Send.send_eof. destruct (s_eof s) as [[e [|]]|] eqn:Ee; try (split; [exact H|reflexivity]).
      destruct (set_eof_flag_fields false (semit_pdu (PEof e) (supd_ack (c_restart now) s))) as (A & B & C & D & E).
      split; [|rewrite A; reflexivity].
      destruct H as (HA & HB & HC). unfold SL. rewrite A, B, C. cbn [s_state s_phase s_ack semit_pdu set_s_out supd_ack set_s_timer].
      splits; auto.
      - intros Ha. unfold alive. rewrite B. cbn [s_phase semit_pdu set_s_out supd_ack set_s_timer]. rewrite Ep.
        unfold ack_run. rewrite E. cbn. rewrite !orb_true_r. reflexivity.
      - rewrite Ep. discriminate. }
    destruct H1 as (H1 & Hs1). set (s1 := send_eof now s) in *. clearbody s1.
    assert (H2 : SL (if s_eof_ind s1 then set_s_eof_ind false (semit_ind IEoFSent s1) else s1)).
    { destruct (s_eof_ind s1); [sl_leaf|]; exact H1. }
    remember (if s_eof_ind s1 then _ else s1) as s2 eqn:E2. clear E2 H1.
    destruct (cfg_mode (s_cfg s2)); cbn [fst]; [exact H2|].
    destruct (md_closure (s_meta s2)); cbn [fst]; [exact H2|apply SL_shutdown].
  - (* Cancelled *)
    cbn [fst]. unfold Send.send_eof. destruct (s_eof s) as [[e [|]]|] eqn:Ee; try exact H.
    destruct (set_eof_flag_fields false (semit_pdu (PEof e) (supd_ack (c_restart now) s))) as (A & B & C & D & E).
    destruct H as (HA & HB & HC). unfold SL. rewrite A, B, C. cbn [s_state s_phase s_ack semit_pdu set_s_out supd_ack set_s_timer].
    splits; auto.
    + intros Ha. unfold alive. rewrite B. cbn [s_phase semit_pdu set_s_out supd_ack set_s_timer]. rewrite Ep.
      unfold ack_run. rewrite E. cbn. rewrite !orb_true_r. reflexivity.
    + intros Ha _. unfold inact_run. rewrite E. cbn. apply HC; assumption.
  - (* Finished: the ACK goes out and the transaction ends *)
    cbn [fst]. unfold Send.send_ack. destruct (s_ack s) eqn:Ea; [apply SL_shutdown|exact H].
Qed.

Theorem SL_sstep now o s : SL s -> s_state s <> TTerminated -> SL (fst (sstep now o s)).
Proof.
  intros H Hl. unfold Send.sstep.
  assert (H0 : SL (set_s_out [] s)) by (sl_leaf; exact H).
  assert (Hl0 : s_state (set_s_out [] s) <> TTerminated) by exact Hl.
  destruct o; cbn [fst].
  - apply SL_process_pdu; assumption.
  - destruct (s_has_pdu_to_send _); [apply SL_send_pdu; assumption|exact H0].
  - destruct (s_until_timeout now _) as [[|?]|]; [apply SL_handle_timeout; assumption| |]; exact H0.
  - apply SL_cancel_.
  - apply SL_suspend; assumption.
  - apply SL_resume; assumption.
  - unfold s_send_report. sl_leaf. exact H0.
  - apply SL_shutdown.
  - sl_leaf. exact H0.
Qed.
Lemma SL_init now cfg m file : SL (s_new now cfg m file).
Proof. apply SL_alive; cbn; auto; discriminate. Qed.

(* an active send transaction is never stuck: it has a PDU to send or a timer running *)
Theorem send_never_stuck now s : SL s -> s_state s = TActive ->
  s_has_pdu_to_send s = true \/ s_until_timeout now s <> None.
Proof.
  intros (A & B & C) Ha. specialize (B Ha). unfold s_has_pdu_to_send, s_until_timeout, ssuspended. rewrite Ha. cbn [tstate_eqb].
  unfold alive in B. destruct (is_some (s_prompt s)); [left; reflexivity|]. cbn [orb].
  destruct (s_phase s) eqn:Ep; try (left; reflexivity).
  - apply orb_true_iff in B as [B|B].
    + apply orb_true_iff in B as [B|B].
      * left. rewrite orb_comm. exact B.
      * right. unfold t_until. unfold ack_run in B. apply negb_true_iff in B. rewrite B.
        destruct (c_paused (t_nak (s_timer s))); destruct (c_paused (t_inact (s_timer s))); cbn; discriminate.
    + right. unfold t_until. unfold inact_run in B. apply negb_true_iff in B. rewrite B.
      destruct (c_paused (t_ack (s_timer s))); destruct (c_paused (t_nak (s_timer s))); cbn; discriminate.
  - apply orb_true_iff in B as [B|B].
    + apply orb_true_iff in B as [B|B].
      * left. exact B.
      * right. unfold t_until. unfold ack_run in B. apply negb_true_iff in B. rewrite B.
        destruct (c_paused (t_nak (s_timer s))); destruct (c_paused (t_inact (s_timer s))); cbn; discriminate.
    + right. unfold t_until. unfold inact_run in B. apply negb_true_iff in B. rewrite B.
      destruct (c_paused (t_ack (s_timer s))); destruct (c_paused (t_nak (s_timer s))); cbn; discriminate.
  - left. apply A; [reflexivity|]. rewrite Ha. discriminate.
Qed.

(* ================= C01 (sender): the Metadata and EOF PDUs a sender emits are its own; the file is fixed ================= *)
Variable s_file0 : bytes.
Definition pdu_true (m : metadata) (o : out) : Prop :=
  match o with
  | OPdu p => match o_payload p with
              | PMetadata m' => m' = m
              | PEof e => eof_size e = md_size m
              | _ => True
              end
  | OInd _ => True
  end.
Definition SE (m : metadata) (s : sstate) : Prop :=
  s_meta s = m /\ (forall e b, s_eof s = Some (e, b) -> eof_size e = md_size m) /\ Forall (pdu_true m) (s_out s) /\
  s_file s = s_file0.
Lemma SE_ext m (s s' : sstate) : SE m s -> s_meta s' = s_meta s -> s_eof s' = s_eof s -> s_out s' = s_out s ->
  s_file s' = s_file s -> SE m s'.
Proof. unfold SE. intros (A & B & C & D) E1 E2 E3 E4. rewrite E1, E2, E3, E4. auto. Qed.
Lemma SE_out m o (s s' : sstate) : SE m s -> s_meta s' = s_meta s -> s_eof s' = s_eof s -> s_out s' = o :: s_out s ->
  s_file s' = s_file s -> pdu_true m o -> SE m s'.
Proof. unfold SE. intros (A & B & C & D) E1 E2 E3 E4 Ho. rewrite E1, E2, E3, E4. auto. Qed.
Ltac se_leaf :=
  lazymatch goal with
  | |- SE ?m ?t => let b := strip_s t in
      first [ eapply (SE_ext m b); [ | reflexivity | reflexivity | reflexivity | reflexivity ]
            | eapply (SE_out m _ b); [ | reflexivity | reflexivity | reflexivity | reflexivity | cbn; exact I ] ]
  end.
Lemma SE_shutdown m now s : SE m s -> SE m (s_shutdown now s).
Proof. intros H. unfold s_shutdown. se_leaf. exact H. Qed.
Lemma SE_abandon m now s : SE m s -> SE m (s_abandon now s).
Proof. intros H. unfold s_abandon. apply SE_shutdown. se_leaf. exact H. Qed.
Lemma SE_suspend m now s : SE m s -> SE m (s_suspend now s).
Proof. intros H. unfold s_suspend. se_leaf. exact H. Qed.
Lemma SE_set_eof_flag m b s : SE m s -> SE m (set_eof_flag b s).
Proof.
  intros H. unfold set_eof_flag. destruct (s_eof s) as [[e f]|] eqn:Ee; [|exact H].
  destruct H as (A & B & C & D). unfold SE. cbn. splits; auto.
  intros e' b' Hx. inversion Hx; subst. apply (B e' f). exact Ee.
Qed.
Lemma SE_prepare_eof m fl s : SE m s -> SE m (prepare_eof fl s).
Proof.
  intros H. destruct (prepare_eof_fields fl s) as (E1 & _ & E3 & _ & _ & E6 & _).
  destruct H as (HA & HB & HC & HD). unfold SE. rewrite E1, E6, E3. splits; auto.
  intros e b Hx. unfold Send.prepare_eof in Hx. destruct (get_checksum cksum s) as [s1 ck] eqn:Eg.
  cbn in Hx. inversion Hx; subst. cbn.
  assert (Em : s_meta s1 = s_meta s).
  { unfold Send.get_checksum in Eg. destruct (s_cksum s); [inversion Eg; reflexivity|].
    destruct (s_is_file_transfer s); [destruct (md_ck (s_meta s))|]; inversion Eg; reflexivity. }
  rewrite Em. reflexivity.
Qed.
Lemma SE_cancel_ m now c s : SE m s -> SE m (s_cancel_ now c s).
Proof. intros H. unfold Send.s_cancel_. apply SE_prepare_eof. se_leaf. exact H. Qed.
Lemma SE_handle_fault m now c s : SE m s -> SE m (s_handle_fault now c s).
Proof.
  intros H. unfold Send.s_handle_fault.
  assert (H1 : SE m (semit_ind (IFault c (s_sent (set_s_cond c s))) (set_s_cond c s))) by (se_leaf; exact H).
  destruct (handler _ c); [apply SE_cancel_ | apply SE_suspend | | apply SE_abandon]; exact H1.
Qed.
Lemma SE_ht_ack_eof m now s : SE m s -> SE m (ht_ack_eof cksum now s).
Proof.
  intros H. unfold ht_ack_eof, c_timeout_occurred. cbn [fst snd].
  set (s3 := supd_ack (fun _ => c_update now (t_ack (s_timer s))) s).
  assert (H3 : SE m s3) by (unfold s3; se_leaf; exact H). clearbody s3.
  destruct (c_occurred (c_update now (t_ack (s_timer s)))); [|exact H3].
  destruct (c_count (c_update now (t_ack (s_timer s))) =? c_max (c_update now (t_ack (s_timer s))));
    [apply SE_handle_fault | apply SE_set_eof_flag]; exact H3.
Qed.
Lemma SE_handle_timeout m now s : SE m s -> SE m (s_handle_timeout now s).
Proof.
  intros H. unfold Send.s_handle_timeout, c_limit_reached.
  destruct (s_phase s) eqn:Ep; try exact H; cbn [fst snd].
  - set (s1 := supd_inact (fun _ => c_update now (t_inact (s_timer s))) s).
    assert (H1 : SE m s1) by (unfold s1; se_leaf; exact H). clearbody s1.
    destruct (c_count (c_update now (t_inact (s_timer s))) =? c_max (c_update now (t_inact (s_timer s)))); cbn [andb].
    + pose proof (SE_handle_fault m now InactivityDetected s1 H1) as H2.
      destruct (negb (sphase_eqb (s_phase (s_handle_fault now InactivityDetected s1)) SendEof)
                || negb (tstate_eqb (s_state (s_handle_fault now InactivityDetected s1)) TActive));
        [exact H2|apply SE_ht_ack_eof; exact H2].
    + apply SE_ht_ack_eof; exact H1.
  - set (s1 := supd_inact (fun _ => c_update now (t_inact (s_timer s))) s).
    assert (H1 : SE m s1) by (unfold s1; se_leaf; exact H). clearbody s1.
    destruct (c_count (c_update now (t_inact (s_timer s))) =? c_max (c_update now (t_inact (s_timer s))));
      [apply SE_abandon; exact H1|].
    unfold c_timeout_occurred. cbn [fst snd].
    set (s3 := supd_ack (fun _ => c_update now (t_ack (s_timer s1))) s1).
    assert (H3 : SE m s3) by (unfold s3; se_leaf; exact H1). clearbody s3.
    destruct (c_occurred (c_update now (t_ack (s_timer s1)))); [|exact H3].
    destruct (c_count (c_update now (t_ack (s_timer s1))) =? c_max (c_update now (t_ack (s_timer s1))));
      [apply SE_abandon | apply SE_set_eof_flag]; exact H3.
Qed.
Lemma SE_process_pdu m now p s : SE m s -> SE m (fst (s_process_pdu now p s)).
Proof.
  intros H. unfold Send.s_process_pdu.
  set (s0 := if sphase_eqb (s_phase s) SendEof && negb (ssuspended s) then supd_inact (c_reset now) s else s).
  assert (H0 : SE m s0) by (unfold s0; destruct (_ && _); [se_leaf|]; exact H). clearbody s0. clear H.
  destruct (cfg_mode (s_cfg s0)); destruct p; cbn [fst]; try exact H0.
  - se_leaf. exact H0.
  - destruct (ack_dir a); cbn [fst]; exact H0.
  - destruct (md_closure (s_meta s0)); cbn [fst]; [|exact H0]. apply SE_shutdown. se_leaf. exact H0.
Qed.
Lemma SE_send_metadata m s : SE m s -> SE m (send_metadata s).
Proof.
  intros H. unfold Send.send_metadata, semit_pdu.
  eapply (SE_out m _ s); [exact H | reflexivity | reflexivity | reflexivity | reflexivity |]. cbn. destruct H as (A & _). exact A.
Qed.
Lemma SE_send_file_segment m off len s : SE m s -> SE m (send_file_segment off len s).
Proof. intros H. unfold Send.send_file_segment. se_leaf. exact H. Qed.
Lemma SE_send_missing_data m now s : SE m s -> SE m (fst (send_missing_data now s)).
Proof.
  intros H. unfold Send.send_missing_data. destruct (s_naks s) as [|[a b] t]; [exact H|].
  assert (H1 : SE m (supd_inact (c_restart now) (set_s_naks t s))) by (se_leaf; exact H).
  destruct (65535 <? b - a); cbn [fst]; [exact H1|].
  destruct ((a =? 0) && (b - a =? 0)); cbn [fst]; [apply SE_send_metadata|apply SE_send_file_segment]; exact H1.
Qed.
Lemma SE_send_eof m now s : SE m s -> SE m (send_eof now s).
Proof.
  intros H. unfold Send.send_eof. destruct (s_eof s) as [[e [|]]|] eqn:Ee; try exact H.
  apply SE_set_eof_flag. unfold semit_pdu.
  eapply (SE_out m _ (supd_ack (c_restart now) s)); [se_leaf; exact H | reflexivity | reflexivity | reflexivity | reflexivity |].
  cbn. destruct H as (_ & B & _). apply (B e true Ee).
Qed.
Lemma SE_send_pdu m now s : SE m s -> SE m (fst (s_send_pdu now s)).
Proof.
  intros H. unfold Send.s_send_pdu.
  destruct (is_some (s_prompt s)); cbn [fst].
  { unfold Send.send_prompt. destruct (s_prompt s); [se_leaf|]; exact H. }
  destruct (s_phase s) eqn:Ep.
  - pose proof (SE_send_metadata m s H) as H1. destruct (_ && _); cbn [fst].
    + se_leaf. exact H1.
    + unfold enter_send_eof. eapply (SE_ext m (prepare_eof None (send_metadata s))); [apply SE_prepare_eof; exact H1 | reflexivity ..].
  - assert (H1 : SE m (fst (if negb (is_nil (s_naks s)) then send_missing_data now s
                               else (send_file_segment (s_pos s) (cfg_seg (s_cfg s)) s, ROk)))).
    { destruct (negb _); [apply SE_send_missing_data; exact H|]. cbn [fst]. apply SE_send_file_segment. exact H. }
    destruct (if negb (is_nil (s_naks s)) then _ else _) as [s1 r]. cbn [fst] in H1.
    destruct r; cbn [fst]; try exact H1.
    destruct (_ =? _); cbn [fst]; [|exact H1].
    unfold enter_send_eof. eapply (SE_ext m (prepare_eof None s1)); [apply SE_prepare_eof; exact H1 | reflexivity ..].
  - destruct (negb _); [apply SE_send_missing_data; exact H|].
    pose proof (SE_send_eof m now s H) as H1.
    set (s1 := send_eof now s) in *. clearbody s1.
    assert (H2 : SE m (if s_eof_ind s1 then set_s_eof_ind false (semit_ind IEoFSent s1) else s1)).
    { destruct (s_eof_ind s1); [se_leaf|]; exact H1. }
    remember (if s_eof_ind s1 then _ else s1) as s2 eqn:E2. clear E2 H1.
    destruct (cfg_mode (s_cfg s2)); cbn [fst]; [exact H2|].
    destruct (md_closure (s_meta s2)); cbn [fst]; [exact H2|].
    apply SE_shutdown. se_leaf. exact H2.
  - cbn [fst]. apply SE_send_eof. exact H.
  - cbn [fst]. unfold Send.send_ack. destruct (s_ack s); [apply SE_shutdown; se_leaf|]; exact H.
Qed.
Theorem SE_sstep m now o s : SE m s -> SE m (fst (sstep now o s)).
Proof.
  intros H. unfold Send.sstep.
  assert (H0 : SE m (set_s_out [] s)).
  { destruct H as (A & B & C & D). unfold SE. cbn. splits; auto. }
  remember (set_s_out [] s) as s0 eqn:E0. clear E0 H.
  destruct o; cbn [fst].
  - apply SE_process_pdu; exact H0.
  - destruct (s_has_pdu_to_send _); [apply SE_send_pdu|]; exact H0.
  - destruct (s_until_timeout now _) as [[|?]|]; [apply SE_handle_timeout| |]; exact H0.
  - apply SE_cancel_; exact H0.
  - apply SE_suspend; exact H0.
  - unfold s_resume. destruct (s_phase _); se_leaf; exact H0.
  - unfold s_send_report. se_leaf. exact H0.
  - apply SE_shutdown; exact H0.
  - se_leaf. exact H0.
Qed.
Lemma SE_init now cfg m : SE m (s_new now cfg m s_file0).
Proof. unfold SE, s_new. cbn. splits; auto; [intros e b Hx; discriminate|repeat constructor]. Qed.

(* ================= C01 (sender): a success indication repeats a received success Finished PDU ================= *)
(* [Delivered]: what a Finished PDU saying Retained / Complete stands for (in the system proof: the
   receiving filestore holds the source file under the destination name, for good) *)
Variable Delivered : Prop.
Definition s_success (o : out) : Prop :=
  match o with OInd (IFinished _ FRetained DComplete _) => True | _ => False end.
Definition SF (s : sstate) : Prop :=
  (s_fstat s = FRetained -> s_dc s = DComplete -> Delivered) /\
  Forall (fun o => s_success o -> s_fstat s = FRetained /\ s_dc s = DComplete) (s_out s).
Lemma SF_ext (s s' : sstate) : SF s -> s_fstat s' = s_fstat s -> s_dc s' = s_dc s -> s_out s' = s_out s -> SF s'.
Proof. unfold SF. intros (A & B) E1 E2 E3. rewrite E1, E2, E3. auto. Qed.
Lemma SF_out o (s s' : sstate) : SF s -> s_fstat s' = s_fstat s -> s_dc s' = s_dc s -> s_out s' = o :: s_out s ->
  (s_success o -> s_fstat s = FRetained /\ s_dc s = DComplete) -> SF s'.
Proof. unfold SF. intros (A & B) E1 E2 E3 Ho. rewrite E1, E2, E3. auto. Qed.
Ltac sf_leaf :=
  lazymatch goal with
  | |- SF ?t => let b := strip_s t in
      first [ eapply (SF_ext b); [ | reflexivity | reflexivity | reflexivity ]
            | eapply (SF_out _ b); [ | reflexivity | reflexivity | reflexivity | cbn; tauto ] ]
  end.
Lemma SF_fin_ind rep resps s : SF s -> SF (semit_ind (IFinished rep (s_fstat s) (s_dc s) resps) s).
Proof.
  intros H. eapply (SF_out _ s); [exact H | reflexivity | reflexivity | reflexivity |].
  unfold s_success. destruct (s_fstat s); try contradiction. destruct (s_dc s); try contradiction. auto.
Qed.
Lemma SF_shutdown now s : SF s -> SF (s_shutdown now s).
Proof. intros H. unfold s_shutdown. sf_leaf. exact H. Qed.
Lemma SF_abandon now s : SF s -> SF (s_abandon now s).
Proof. intros H. unfold s_abandon. apply SF_shutdown. sf_leaf. exact H. Qed.
Lemma SF_suspend now s : SF s -> SF (s_suspend now s).
Proof. intros H. unfold s_suspend. sf_leaf. exact H. Qed.
Lemma SF_set_eof_flag b s : SF s -> SF (set_eof_flag b s).
Proof. intros H. unfold set_eof_flag. destruct (s_eof s) as [[e f]|]; [sf_leaf|]; exact H. Qed.
Lemma SF_prepare_eof fl s : SF s -> SF (prepare_eof fl s).
Proof.
  intros H. unfold Send.prepare_eof, Send.get_checksum.
  destruct (s_cksum s); cbn [fst snd]; [sf_leaf; exact H|].
  destruct (s_is_file_transfer s); cbn [fst snd]; [|sf_leaf; exact H].
  destruct (md_ck (s_meta s)); sf_leaf; exact H.
Qed.
Lemma SF_cancel_ now c s : SF s -> SF (s_cancel_ now c s).
Proof. intros H. unfold Send.s_cancel_. apply SF_prepare_eof. sf_leaf. exact H. Qed.
Lemma SF_handle_fault now c s : SF s -> SF (s_handle_fault now c s).
Proof.
  intros H. unfold Send.s_handle_fault.
  assert (H1 : SF (semit_ind (IFault c (s_sent (set_s_cond c s))) (set_s_cond c s))) by (sf_leaf; exact H).
  destruct (handler _ c); [apply SF_cancel_ | apply SF_suspend | | apply SF_abandon]; exact H1.
Qed.
Lemma SF_ht_ack_eof now s : SF s -> SF (ht_ack_eof cksum now s).
Proof.
  intros H. unfold ht_ack_eof, c_timeout_occurred. cbn [fst snd].
  set (s3 := supd_ack (fun _ => c_update now (t_ack (s_timer s))) s).
  assert (H3 : SF s3) by (unfold s3; sf_leaf; exact H). clearbody s3.
  destruct (c_occurred (c_update now (t_ack (s_timer s)))); [|exact H3].
  destruct (c_count (c_update now (t_ack (s_timer s))) =? c_max (c_update now (t_ack (s_timer s))));
    [apply SF_handle_fault | apply SF_set_eof_flag]; exact H3.
Qed.
Lemma SF_handle_timeout now s : SF s -> SF (s_handle_timeout now s).
Proof.
  intros H. unfold Send.s_handle_timeout, c_limit_reached.
  destruct (s_phase s) eqn:Ep; try exact H; cbn [fst snd].
  - set (s1 := supd_inact (fun _ => c_update now (t_inact (s_timer s))) s).
    assert (H1 : SF s1) by (unfold s1; sf_leaf; exact H). clearbody s1.
    destruct (c_count (c_update now (t_inact (s_timer s))) =? c_max (c_update now (t_inact (s_timer s)))); cbn [andb].
    + pose proof (SF_handle_fault now InactivityDetected s1 H1) as H2.
      destruct (negb (sphase_eqb (s_phase (s_handle_fault now InactivityDetected s1)) SendEof)
                || negb (tstate_eqb (s_state (s_handle_fault now InactivityDetected s1)) TActive));
        [exact H2|apply SF_ht_ack_eof; exact H2].
    + apply SF_ht_ack_eof; exact H1.
  - set (s1 := supd_inact (fun _ => c_update now (t_inact (s_timer s))) s).
    assert (H1 : SF s1) by (unfold s1; sf_leaf; exact H). clearbody s1.
    destruct (c_count (c_update now (t_inact (s_timer s))) =? c_max (c_update now (t_inact (s_timer s))));
      [apply SF_abandon; exact H1|].
    unfold c_timeout_occurred. cbn [fst snd].
    set (s3 := supd_ack (fun _ => c_update now (t_ack (s_timer s1))) s1).
    assert (H3 : SF s3) by (unfold s3; sf_leaf; exact H1). clearbody s3.
    destruct (c_occurred (c_update now (t_ack (s_timer s1)))); [|exact H3].
    destruct (c_count (c_update now (t_ack (s_timer s1))) =? c_max (c_update now (t_ack (s_timer s1))));
      [apply SF_abandon | apply SF_set_eof_flag]; exact H3.
Qed.
(* receiving a Finished PDU: the sender adopts its file status and delivery code *)
Lemma SF_adopt fn (s s' : sstate) : SF s -> (fin_fs fn = FRetained -> fin_dc fn = DComplete -> Delivered) ->
  s_fstat s' = fin_fs fn -> s_dc s' = fin_dc fn ->
  Forall (fun o => ~ s_success o) (s_out s) -> s_out s' = s_out s -> SF s'.
Proof.
  intros (A & B) Hd E1 E2 Hn E3. unfold SF. rewrite E1, E2, E3. split; [exact Hd|].
  eapply Forall_impl; [|exact Hn]. intros o Ho Hs. contradiction.
Qed.
Lemma SF_process_pdu now p s : SF s -> s_out s = [] ->
  (forall fn, p = PFinished fn -> fin_fs fn = FRetained -> fin_dc fn = DComplete -> Delivered) ->
  SF (fst (s_process_pdu now p s)).
Proof.
  intros H Hout Hd. unfold Send.s_process_pdu.
  set (s0 := if sphase_eqb (s_phase s) SendEof && negb (ssuspended s) then supd_inact (c_reset now) s else s).
  assert (H0 : SF s0) by (unfold s0; destruct (_ && _); [sf_leaf|]; exact H).
  assert (Ho0 : s_out s0 = []) by (unfold s0; destruct (_ && _); exact Hout).
  clearbody s0. clear H.
  destruct (cfg_mode (s_cfg s0)); destruct p; cbn [fst]; try exact H0.
  - (* Finished, acknowledged *)
    match goal with |- SF (semit_ind (IFinished ?rep ?a ?b ?r) ?x) =>
      change a with (s_fstat x); change b with (s_dc x); apply SF_fin_ind end.
    eapply (SF_adopt f s0); [exact H0 | apply Hd; reflexivity | reflexivity | reflexivity | rewrite Ho0; constructor | reflexivity].
  - destruct (ack_dir a); cbn [fst]; exact H0.
  - (* Finished, unacknowledged with closure *)
    destruct (md_closure (s_meta s0)); cbn [fst]; [|exact H0]. apply SF_shutdown.
    match goal with |- SF (semit_ind (IFinished ?rep ?a ?b ?r) ?x) =>
      change a with (s_fstat x); change b with (s_dc x); apply SF_fin_ind end.
    eapply (SF_adopt f s0); [exact H0 | apply Hd; reflexivity | reflexivity | reflexivity | rewrite Ho0; constructor | reflexivity].
Qed.
Lemma SF_send_metadata s : SF s -> SF (send_metadata s).
Proof. intros H. unfold Send.send_metadata. sf_leaf. exact H. Qed.
Lemma SF_send_file_segment off len s : SF s -> SF (send_file_segment off len s).
Proof. intros H. unfold Send.send_file_segment. sf_leaf. exact H. Qed.
Lemma SF_send_missing_data now s : SF s -> SF (fst (send_missing_data now s)).
Proof.
  intros H. unfold Send.send_missing_data. destruct (s_naks s) as [|[a b] t]; [exact H|].
  assert (H1 : SF (supd_inact (c_restart now) (set_s_naks t s))) by (sf_leaf; exact H).
  destruct (65535 <? b - a); cbn [fst]; [exact H1|].
  destruct ((a =? 0) && (b - a =? 0)); cbn [fst]; [apply SF_send_metadata|apply SF_send_file_segment]; exact H1.
Qed.
Lemma SF_send_eof now s : SF s -> SF (send_eof now s).
Proof.
  intros H. unfold Send.send_eof. destruct (s_eof s) as [[e [|]]|]; try exact H.
  apply SF_set_eof_flag. sf_leaf. exact H.
Qed.
Lemma SF_send_pdu now s : SF s -> SF (fst (s_send_pdu now s)).
Proof.
  intros H. unfold Send.s_send_pdu.
  destruct (is_some (s_prompt s)); cbn [fst].
  { unfold Send.send_prompt. destruct (s_prompt s); [sf_leaf|]; exact H. }
  destruct (s_phase s) eqn:Ep.
  - pose proof (SF_send_metadata s H) as H1. destruct (_ && _); cbn [fst].
    + sf_leaf. exact H1.
    + unfold enter_send_eof. eapply (SF_ext (prepare_eof None (send_metadata s))); [apply SF_prepare_eof; exact H1 | reflexivity ..].
  - assert (H1 : SF (fst (if negb (is_nil (s_naks s)) then send_missing_data now s
                               else (send_file_segment (s_pos s) (cfg_seg (s_cfg s)) s, ROk)))).
    { destruct (negb _); [apply SF_send_missing_data; exact H|]. cbn [fst]. apply SF_send_file_segment. exact H. }
    destruct (if negb (is_nil (s_naks s)) then _ else _) as [s1 r]. cbn [fst] in H1.
    destruct r; cbn [fst]; try exact H1.
    destruct (_ =? _); cbn [fst]; [|exact H1].
    unfold enter_send_eof. eapply (SF_ext (prepare_eof None s1)); [apply SF_prepare_eof; exact H1 | reflexivity ..].
  - destruct (negb _); [apply SF_send_missing_data; exact H|].
    pose proof (SF_send_eof now s H) as H1.
    set (s1 := send_eof now s) in *. clearbody s1.
    assert (H2 : SF (if s_eof_ind s1 then set_s_eof_ind false (semit_ind IEoFSent s1) else s1)).
    { destruct (s_eof_ind s1); [sf_leaf|]; exact H1. }
    remember (if s_eof_ind s1 then _ else s1) as s2 eqn:E2. clear E2 H1.
    destruct (cfg_mode (s_cfg s2)); cbn [fst]; [exact H2|].
    destruct (md_closure (s_meta s2)); cbn [fst]; [exact H2|].
    apply SF_shutdown. apply SF_fin_ind. exact H2.
  - cbn [fst]. apply SF_send_eof. exact H.
  - cbn [fst]. unfold Send.send_ack. destruct (s_ack s); [apply SF_shutdown; sf_leaf|]; exact H.
Qed.
Theorem SF_sstep now o s : SF s ->
  (forall fn, o = SPdu (PFinished fn) -> fin_fs fn = FRetained -> fin_dc fn = DComplete -> Delivered) ->
  SF (fst (sstep now o s)).
Proof.
  intros H Hd. unfold Send.sstep.
  assert (H0 : SF (set_s_out [] s)) by (destruct H as (A & B); unfold SF; cbn; split; [exact A|constructor]).
  assert (Ho : s_out (set_s_out [] s) = []) by reflexivity.
  remember (set_s_out [] s) as s0 eqn:E0. clear E0 H.
  destruct o; cbn [fst].
  - apply SF_process_pdu; [exact H0|exact Ho|]. intros fn E. apply Hd. rewrite E. reflexivity.
  - destruct (s_has_pdu_to_send _); [apply SF_send_pdu|]; exact H0.
  - destruct (s_until_timeout now _) as [[|?]|]; [apply SF_handle_timeout| |]; exact H0.
  - apply SF_cancel_; exact H0.
  - apply SF_suspend; exact H0.
  - unfold s_resume. destruct (s_phase _); sf_leaf; exact H0.
  - unfold s_send_report. sf_leaf. exact H0.
  - apply SF_shutdown; exact H0.
  - sf_leaf. exact H0.
Qed.
Lemma SF_init now cfg m file : SF (s_new now cfg m file).
Proof. unfold SF, s_new. cbn. split; [intros E; discriminate|]. constructor; [cbn; tauto|constructor]. Qed.

End SendP.
