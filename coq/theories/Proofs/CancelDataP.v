(* C10, sender: once a send transaction has been cancelled (or has been told the outcome by a
   Finished PDU) it transmits no file data and no Metadata any more, whatever arrives - NAKs
   included - and it never returns to a transmitting phase. (Seeded change C10f let a cancelled
   sender answer its retransmission queue, which can complete the file at the receiver before the
   EOF(cancel) gets there.) *)
From CFDP Require Import Base.Prelude Model.Timer Model.TxTypes Model.Recv Model.Send Proofs.Tac Proofs.TimerP
  Proofs.SendP.

Definition no_data (o : out) : Prop :=
  match o with
  | OPdu p => match o_payload p with PFileData _ _ | PMetadata _ => False | _ => True end
  | OInd _ => True
  end.
Definition ended (p : sphase) : Prop := p = SCancelled \/ p = SFinished.

Section CancelDataP.
Variable cksum : cktype -> bytes -> N.
Variable resp_len : fsresp -> N.
Variable req_len : fsreq -> N.

Notation sstep := (sstep cksum resp_len req_len).
Notation s_send_pdu := (s_send_pdu cksum resp_len req_len).
Notation s_handle_timeout := (s_handle_timeout cksum).
Notation s_handle_fault := (s_handle_fault cksum).
Notation s_cancel_ := (s_cancel_ cksum).
Notation prepare_eof := (prepare_eof cksum).
Notation send_eof := (send_eof resp_len req_len).
Notation send_prompt := (send_prompt resp_len req_len).
Notation send_ack := (send_ack resp_len req_len).

Definition ND (s : sstate) : Prop := ended (s_phase s) /\ Forall no_data (s_out s).

Lemma ND_ext (s s' : sstate) : ND s -> s_phase s' = s_phase s -> s_out s' = s_out s -> ND s'.
Proof. unfold ND. intros (A & B) E1 E2. rewrite E1, E2. auto. Qed.
Lemma ND_out o (s s' : sstate) : ND s -> s_phase s' = s_phase s -> s_out s' = o :: s_out s -> no_data o -> ND s'.
Proof. unfold ND. intros (A & B) E1 E2 Ho. rewrite E1, E2. split; [exact A|constructor; assumption]. Qed.
(* a move between the two ended phases *)
Lemma ND_phase (s s' : sstate) : ND s -> ended (s_phase s') -> s_out s' = s_out s -> ND s'.
Proof. unfold ND. intros (A & B) E1 E2. rewrite E2. auto. Qed.

Ltac nd_leaf :=
  lazymatch goal with
  | |- ND ?t =>
      let b := strip_s t in
      first [ eapply (ND_ext b); [ | reflexivity | reflexivity ]
            | eapply (ND_out _ b); [ | reflexivity | reflexivity | exact I ] ]
  end.

Lemma ND_shutdown now s : ND s -> ND (s_shutdown now s).
Proof. intros H. unfold s_shutdown. nd_leaf. exact H. Qed.
Lemma ND_abandon now s : ND s -> ND (s_abandon now s).
Proof. intros H. unfold s_abandon. apply ND_shutdown. nd_leaf. exact H. Qed.
Lemma ND_suspend now s : ND s -> ND (s_suspend now s).
Proof. intros H. unfold s_suspend. nd_leaf. exact H. Qed.
Lemma ND_resume now s : ND s -> ND (s_resume now s).
Proof. intros H. unfold s_resume. destruct (s_phase s) eqn:E; nd_leaf; exact H. Qed.
Lemma ND_set_eof_flag b s : ND s -> ND (set_eof_flag b s).
Proof. intros H. unfold set_eof_flag. destruct (s_eof s) as [[e f]|]; [nd_leaf|]; exact H. Qed.
Lemma ND_prepare_eof fl s : ND s -> ND (prepare_eof fl s).
Proof.
  intros H. unfold Send.prepare_eof, Send.get_checksum.
  destruct (s_cksum s); cbn [fst snd]; [nd_leaf; exact H|].
  destruct (s_is_file_transfer s); cbn [fst snd]; [|nd_leaf; exact H].
  destruct (md_ck (s_meta s)); nd_leaf; exact H.
Qed.
(* a cancel from ANY phase ends data transmission (no ND needed beforehand, only a clean log) *)
Lemma ND_cancel_ now c s : Forall no_data (s_out s) -> ND (s_cancel_ now c s).
Proof.
  intros H. unfold Send.s_cancel_. apply ND_prepare_eof. split; [left; reflexivity|exact H].
Qed.
Lemma ND_handle_fault now c s : ND s -> ND (s_handle_fault now c s).
Proof.
  intros H. unfold Send.s_handle_fault.
  assert (H1 : ND (semit_ind (IFault c (s_sent (set_s_cond c s))) (set_s_cond c s))) by (nd_leaf; exact H).
  destruct (handler _ c); [apply ND_cancel_; destruct H1; assumption | apply ND_suspend | | apply ND_abandon]; exact H1.
Qed.
Lemma ND_handle_timeout now s : ND s -> ND (s_handle_timeout now s).
Proof.
  intros H. unfold Send.s_handle_timeout, c_limit_reached.
  destruct (s_phase s) eqn:Ep; try exact H; cbn [fst snd].
  - (* SendEof is not an ended phase *)
    destruct H as ([E|E] & _); rewrite Ep in E; discriminate.
  - set (s1 := supd_inact (fun _ => c_update now (t_inact (s_timer s))) s).
    assert (H1 : ND s1) by (unfold s1; nd_leaf; exact H). clearbody s1.
    destruct (c_count (c_update now (t_inact (s_timer s))) =? c_max (c_update now (t_inact (s_timer s))));
      [apply ND_abandon; exact H1|].
    unfold c_timeout_occurred. cbn [fst snd].
    set (s3 := supd_ack (fun _ => c_update now (t_ack (s_timer s1))) s1).
    assert (H3 : ND s3) by (unfold s3; nd_leaf; exact H1). clearbody s3.
    destruct (c_occurred (c_update now (t_ack (s_timer s1)))); [|exact H3].
    destruct (c_count (c_update now (t_ack (s_timer s1))) =? c_max (c_update now (t_ack (s_timer s1))));
      [apply ND_abandon | apply ND_set_eof_flag]; exact H3.
Qed.
Lemma ND_process_pdu now p s : ND s -> ND (fst (s_process_pdu now p s)).
Proof.
  intros H. unfold Send.s_process_pdu.
  set (s0 := if sphase_eqb (s_phase s) SendEof && negb (ssuspended s) then supd_inact (c_reset now) s else s).
  assert (H0 : ND s0) by (unfold s0; destruct (_ && _); [nd_leaf|]; exact H). clearbody s0. clear H.
  destruct (cfg_mode (s_cfg s0)); destruct p; cbn [fst]; try exact H0.
  - (* Finished, acknowledged: the phase becomes SFinished *)
    eapply (ND_out _ (set_s_phase SFinished (prepare_ack (set_s_fstat (fin_fs f) (set_s_dc (fin_dc f) s0)))));
      [ | reflexivity | reflexivity | exact I ].
    eapply (ND_phase s0); [exact H0 | right; reflexivity | reflexivity].
  - destruct (ack_dir a); cbn [fst]; exact H0.
  - destruct (md_closure (s_meta s0)); cbn [fst]; [|exact H0].
    apply ND_shutdown. nd_leaf. exact H0.
Qed.
Lemma ND_send_eof now s : ND s -> ND (send_eof now s).
Proof.
  intros H. unfold Send.send_eof. destruct (s_eof s) as [[e [|]]|]; try exact H.
  apply ND_set_eof_flag. nd_leaf. exact H.
Qed.
Lemma ND_send_pdu now s : ND s -> ND (fst (s_send_pdu now s)).
Proof.
  intros H. unfold Send.s_send_pdu.
  destruct (is_some (s_prompt s)); cbn [fst].
  { unfold Send.send_prompt. destruct (s_prompt s); [nd_leaf|]; exact H. }
  destruct (s_phase s) eqn:Ep.
  1-3: destruct H as ([E|E] & _); rewrite Ep in E; discriminate.
  - cbn [fst]. apply ND_send_eof; exact H.
  - cbn [fst]. unfold Send.send_ack. destruct (s_ack s); [apply ND_shutdown; nd_leaf|]; exact H.
Qed.

(* every operation keeps "ended, and nothing but EOF / ACK / Prompt PDUs in the output" *)
Theorem ND_sstep now o s : ended (s_phase s) ->
  let s' := fst (sstep now o s) in ended (s_phase s') /\ Forall no_data (s_out s').
Proof.
  intros He. cbn zeta. change (ND (fst (sstep now o s))). unfold Send.sstep.
  assert (H0 : ND (set_s_out [] s)) by (split; [exact He|constructor]).
  destruct o; cbn [fst].
  - apply ND_process_pdu; exact H0.
  - destruct (s_has_pdu_to_send _); [apply ND_send_pdu|]; exact H0.
  - destruct (s_until_timeout now _) as [[|?]|]; [apply ND_handle_timeout| |]; exact H0.
  - apply ND_cancel_. constructor.
  - apply ND_suspend; exact H0.
  - apply ND_resume; exact H0.
  - unfold s_send_report. eapply (ND_out _ (set_s_out [] s)); [exact H0|reflexivity|reflexivity|exact I].
  - apply ND_shutdown; exact H0.
  - eapply (ND_ext (set_s_out [] s)); [exact H0|reflexivity|reflexivity].
Qed.

(* a user cancel, in any phase and state, puts the transaction there *)
Theorem cancel_ends_data now s :
  let s' := fst (sstep now SCancelOp s) in s_phase s' = SCancelled /\ Forall no_data (s_out s').
Proof.
  cbn zeta. unfold Send.sstep. cbn [fst].
  destruct (ND_cancel_ now CancelReceived (set_s_out [] s) ltac:(constructor)) as (_ & B).
  split; [|exact B].
  unfold Send.s_cancel, Send.s_cancel_, Send.prepare_eof, Send.get_checksum.
  destruct (s_cksum _); cbn [fst snd]; [reflexivity|].
  destruct (s_is_file_transfer _); cbn [fst snd]; [|reflexivity].
  destruct (md_ck _); reflexivity.
Qed.

End CancelDataP.
