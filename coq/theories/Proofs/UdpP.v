(* Proofs about Model/Udp.v: with the fix, what the decoder sees is exactly the
   datagram, whatever earlier datagrams left in the buffer. *)
From CFDP Require Import Base.Prelude Model.Udp.

Lemma overlay_length d buf : length (overlay d buf) = length buf.
Proof.
  unfold overlay. rewrite app_length, firstn_length, skipn_length. lia.
Qed.

Lemma view_is_datagram d buf : (length d <= length buf)%nat -> view d buf = d.
Proof.
  intros H. unfold view, received_len, overlay.
  rewrite (firstn_all2 d H). rewrite Nat.min_l by exact H.
  rewrite firstn_app, Nat.sub_diag, firstn_all. cbn [firstn]. apply app_nil_r.
Qed.

Section UdpP.
  Variable A : Type.
  Variable decode : list N -> option A.

  Lemma recv_decodes_datagram buf d : (length d <= length buf)%nat ->
    snd (recv decode buf d) = decode d.
  Proof. intros H. unfold recv. cbn [snd]. rewrite (view_is_datagram d buf H). reflexivity. Qed.

  Lemma recv_buffer_length buf d : length (fst (recv decode buf d)) = length buf.
  Proof. unfold recv. cbn [fst]. apply overlay_length. Qed.

  (* history independence *)
  Lemma run_is_map ds : forall buf,
    Forall (fun d => (length d <= length buf)%nat) ds -> run decode buf ds = map decode ds.
  Proof.
    induction ds as [|d t IH]; intros buf H; [reflexivity|].
    inversion H as [|d' t' Hd Ht]; subst.
    cbn [run map recv]. rewrite (view_is_datagram d buf Hd). f_equal.
    apply IH. rewrite overlay_length. exact Ht.
  Qed.

  (* a decoder that rejects every strict prefix of what it accepts (true of any
     length-delimited format) rejects every truncated datagram, whatever came before *)
  Lemma truncated_rejected buf e k :
    (forall b j, decode b <> None -> (j < length b)%nat -> decode (firstn j b) = None) ->
    (length e <= length buf)%nat -> decode e <> None -> (k < length e)%nat ->
    snd (recv decode buf (firstn k e)) = None.
  Proof.
    intros Hpre Hlen Hok Hk. rewrite recv_decodes_datagram.
    - apply Hpre; assumption.
    - rewrite firstn_length. lia.
  Qed.
End UdpP.

(* ---- the pinned code's defect, as an executable witness: a toy length-prefixed
   decoder (first byte = payload length); after the datagram [2;7;8] the truncated
   datagram [2] is completed with the stale bytes 7 8 ---- *)
Definition toy_decode (b : list N) : option (list N) :=
  match b with
  | [] => None
  | l :: t => if (length t <? N.to_nat l)%nat then None else Some (firstn (N.to_nat l) t)
  end.

Example pinned_stale_bytes_refuted :
  pinned_run toy_decode (repeat 0 8) [[2; 7; 8]; [2]] = [Some [7; 8]; Some [7; 8]] /\
  toy_decode [2] = None /\
  run toy_decode (repeat 0 8) [[2; 7; 8]; [2]] = [Some [7; 8]; None].
Proof. vm_compute. auto. Qed.
