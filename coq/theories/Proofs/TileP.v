(* C07, the first pass tiles the file in order: while no retransmission is queued, each run of the
   send arm in the SendData phase emits exactly one file data PDU, starting where the previous one
   ended (at the cursor), one segment long or up to the end of the file; the cursor moves to its
   end; when the end of the file is reached the EOF is prepared. With C07_first_pass_covers: the
   first pass sends every byte, in order, each exactly once. *)
From CFDP Require Import Base.Prelude Model.Timer Model.TxTypes Model.Recv Model.Send Proofs.Tac Proofs.TimerP
  Proofs.SendP.

Section TileP.
Variable cksum : cktype -> bytes -> N.
Variable resp_len : fsresp -> N.
Variable req_len : fsreq -> N.
Notation s_send_pdu := (s_send_pdu cksum resp_len req_len).

Theorem first_pass_step now (s : sstate) :
  s_phase s = SendData -> s_naks s = [] -> s_prompt s = None ->
  let data := slice (s_file s) (s_pos s) (cfg_seg (s_cfg s)) in
  let s' := fst (s_send_pdu now s) in
  (exists p, s_out s' = OPdu p :: s_out s /\ o_payload p = PFileData (s_pos s) data) /\
  (if s_pos s + N.of_nat (length data) =? N.of_nat (length (s_file s))
   then s_phase s' = SendEof /\ (exists e, s_eof s' = Some (e, true))
   else s_phase s' = SendData /\ s_pos s' = s_pos s + N.of_nat (length data) /\ s_naks s' = []).
Proof.
  intros Hp Hn Hpr. cbn zeta. unfold Send.s_send_pdu. rewrite Hpr, Hp, Hn. cbn [is_some is_nil negb].
  set (s1 := send_file_segment resp_len req_len (s_pos s) (cfg_seg (s_cfg s)) s).
  assert (E1 : s_pos s1 = s_pos s + N.of_nat (length (slice (s_file s) (s_pos s) (cfg_seg (s_cfg s))))) by reflexivity.
  assert (E2 : s_file s1 = s_file s) by reflexivity.
  assert (E3 : s_out s1 = OPdu (mkOpdu true (payload_len (s_cfg s) resp_len req_len
                 (PFileData (s_pos s) (slice (s_file s) (s_pos s) (cfg_seg (s_cfg s))))) (cfg_dst (s_cfg s))
                 (PFileData (s_pos s) (slice (s_file s) (s_pos s) (cfg_seg (s_cfg s))))) :: s_out s) by reflexivity.
  assert (E4 : s_phase s1 = SendData) by exact Hp.
  assert (E5 : s_naks s1 = []) by exact Hn.
  clearbody s1. rewrite E2, E1.
  destruct (_ =? _); cbn [fst].
  - destruct (prepare_eof_fields cksum None s1) as (A & B & C & D & E & F & G).
    split.
    + change (s_out (enter_send_eof now (prepare_eof cksum None s1))) with (s_out (prepare_eof cksum None s1)).
      rewrite F, E3. eexists. split; reflexivity.
    + split; [reflexivity|].
      change (s_eof (enter_send_eof now (prepare_eof cksum None s1))) with (s_eof (prepare_eof cksum None s1)).
      unfold prepare_eof. destruct (get_checksum cksum s1) as [s2 ck]. cbn. eexists. reflexivity.
  - split; [rewrite E3; eexists; split; reflexivity|]. auto.
Qed.

End TileP.
