(* Extraction of the executable model to OCaml for the correspondence check.
   Only ExtrOcamlBasic is used (bool, option, unit, list, prod, sumbool, sumor);
   numbers stay Coq's inductive positive / N / Z. No Extract Constant. *)
From Coq Require Extraction.
From Coq Require Import ExtrOcamlBasic.
From CFDP Require Import Base.Prelude Model.Segments.
From CFDP Require Import Model.Crc.
From CFDP Require Import Model.CrcBits.

Extraction Language OCaml.
Extraction "model.ml"
  Crc.crc16 Crc.crc_bytes Crc.crc_frame_ok
  CrcBits.receiver_frame_check CrcBits.receiver_consumed
  Segments.merge_seg Segments.gaps Segments.is_complete Segments.seg_len
  Segments.seg_end Segments.end_or_0.
