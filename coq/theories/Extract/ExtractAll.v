(* Extraction of the executable model to OCaml for the correspondence check.
   Only ExtrOcamlBasic is used (bool, option, unit, list, prod, sumbool, sumor);
   numbers stay Coq's inductive positive / N / Z. No Extract Constant. *)
From Coq Require Extraction.
From Coq Require Import ExtrOcamlBasic.
From CFDP Require Import Base.Prelude Model.Segments.
From CFDP Require Import Model.Crc Model.Timer Model.TxTypes Model.Recv Model.Send Model.TxInst.
From CFDP Require Import Model.Link Model.Daemon.
From CFDP Require Import Model.Checksum.
From CFDP Require Import Model.Path.
From CFDP Require Import Model.Udp.
From CFDP Require Import Model.FsModel.
From CFDP Require Import Model.CrcBits.
From CFDP Require Import Model.Pdu Model.PduUser Model.CodecBase Model.Codec Model.CodecUser.

Extraction Language OCaml.
Extraction "model.ml"
  Crc.crc_bytes Crc.crc_frame_ok
  CrcBits.receiver_frame_check CrcBits.receiver_consumed
  Segments.merge_seg Segments.gaps Segments.is_complete Segments.seg_len
  Segments.seg_end Segments.end_or_0
  Crc.crc16
  Recv.r_new Recv.rstep Recv.has_pdu_to_send Recv.until_timeout
  Send.s_new Send.sstep Send.s_has_pdu_to_send Send.s_until_timeout
  TxInst.inst_rstep TxInst.inst_sstep TxInst.flat_lookup
  Link.l_new Link.lstep
  Daemon.d_new Daemon.d_put Daemon.d_command Daemon.d_forward Daemon.d_cleanup
  Checksum.file_checksum
  Path.path_components Path.path_strip_prefix Path.path_native Path.path_native2
  Udp.udp_recv Udp.udp_initial_buffer
  FsModel.fs_mk_request FsModel.fs_resp_code FsModel.fs_tree_of FsModel.fs_entries
  FsModel.fs_process_request FsModel.fs_exec_requests
  (* codec (C05, C06) *)
  Codec.pdu_encode Codec.pdu_decode Codec.payload_encoded_len Codec.pdu_encoded_len Codec.fix_len
  Codec.header_encoded_len Codec.fs_status_u8 Codec.fs_get_status
  CodecUser.uo_encode CodecUser.uo_decode CodecUser.uo_encoded_len
  CodecUser.report_encode CodecUser.report_decode
  Enums.TraceControl_to_u8 Enums.TraceControl_from_u8 Enums.ListingResponseCode_to_u8
  Enums.ListingResponseCode_from_u8 Enums.TransactionState_to_u8 Enums.TransactionState_from_u8
  Enums.RecordContinuationState_to_u8 Enums.RecordContinuationState_from_u8
  .
