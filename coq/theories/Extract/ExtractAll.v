(* Extraction of the executable model to OCaml for the correspondence check.
   Only ExtrOcamlBasic is used (bool, option, unit, list, prod, sumbool, sumor);
   numbers stay Coq's inductive positive / N / Z. No Extract Constant. *)
From Coq Require Extraction.
From Coq Require Import ExtrOcamlBasic.
From CFDP Require Import Base.Prelude Model.Segments.
From CFDP Require Import Model.Crc Model.Timer Model.TxTypes Model.Recv Model.Send.
From CFDP Require Import Model.Checksum.
From CFDP Require Import Model.Path.
From CFDP Require Import Model.Udp.
From CFDP Require Import Model.FsModel.
From CFDP Require Import Model.CrcBits.

Extraction Language OCaml.
Extraction "model.ml"
  Crc.crc_bytes Crc.crc_frame_ok
  CrcBits.receiver_frame_check CrcBits.receiver_consumed
  Segments.merge_seg Segments.gaps Segments.is_complete Segments.seg_len
  Segments.seg_end Segments.end_or_0
  Crc.crc16
  Recv.r_new Recv.rstep Recv.has_pdu_to_send Recv.until_timeout
  Send.s_new Send.sstep Send.s_has_pdu_to_send Send.s_until_timeout
  Checksum.file_checksum
  Path.path_components Path.path_strip_prefix Path.path_native Path.path_native2
  Udp.udp_recv Udp.udp_initial_buffer
  FsModel.fs_request FsModel.fs_resp_code FsModel.fs_tree_of FsModel.fs_entries
  FsModel.fs_process_request FsModel.fs_exec_requests
  .
