(* Extraction of the executable model to OCaml for the correspondence check.
   Only ExtrOcamlBasic is used (bool, option, unit, list, prod, sumbool, sumor);
   numbers stay Coq's inductive positive / N / Z. No Extract Constant. *)
From Coq Require Extraction.
From Coq Require Import ExtrOcamlBasic.
From CFDP Require Import Base.Prelude Model.Segments.
From CFDP Require Import Model.Pdu Model.PduUser Model.CodecBase Model.Codec Model.CodecUser.

Extraction Language OCaml.
Extraction "model.ml"
  Segments.merge_seg Segments.gaps Segments.is_complete Segments.seg_len
  Segments.seg_end Segments.end_or_0
  (* codec (C05, C06) *)
  Codec.pdu_encode Codec.pdu_decode Codec.payload_encoded_len Codec.pdu_encoded_len Codec.fix_len
  Codec.header_encoded_len Codec.fs_status_u8 Codec.fs_get_status
  CodecUser.uo_encode CodecUser.uo_decode CodecUser.uo_encoded_len
  CodecUser.report_encode CodecUser.report_decode
  Enums.TraceControl_to_u8 Enums.TraceControl_from_u8 Enums.ListingResponseCode_to_u8
  Enums.ListingResponseCode_from_u8 Enums.TransactionState_to_u8 Enums.TransactionState_from_u8
  Enums.RecordContinuationState_to_u8 Enums.RecordContinuationState_from_u8
  .
