(* C10 — cancel never leaves a partial file (safety half, receive-transaction model).
   Pinned statements only. Termination of the cancel handshake is part of C03. *)
From CFDP Require Import Base.Prelude Model.Segments Model.Timer Model.TxTypes Model.Recv Model.TxInst
  Proofs.RecvP Proofs.RecvP4 Proofs.RecvRun.

Section C10.
Variable FS : Type.
Variable fs_write_file : FS -> bytes -> bytes -> option FS.
Variable fs_exec : FS -> fsreq -> FS * fsresp.
Variable resp_fail : fsresp -> bool.
Variable not_performed : fsreq -> fsresp.
Variable cksum : cktype -> bytes -> N.
Variable resp_len : fsresp -> N.
Variable req_len : fsreq -> N.
Notation rrun := (rrun fs_write_file fs_exec resp_fail not_performed cksum resp_len req_len).

(* A user cancel, at any moment and in any state, puts the transaction in the Cancelled
   phase with the CancelReceived condition, touches no file, and (acknowledged mode)
   prepares a Finished PDU carrying that condition. *)
Theorem C10_cancel_effect : forall now (s : rstate FS),
  let s' := cancel now s in
  r_phase s' = RCancelled /\ r_cond s' = CancelReceived /\ r_fs s' = r_fs s /\
  (cfg_mode (r_cfg s) = Acked -> exists f, r_fin s' = Some (f, true) /\ fin_cond f = CancelReceived).
Proof.
  intros now s. cbn zeta. unfold cancel, cancel_. cbn [r_cfg set_r_cond set_r_phase upd_nak set_r_timer].
  destruct (cfg_mode (r_cfg s)) eqn:E; [|destruct (closure _)]; cbn; splits; auto; try discriminate.
  intros _. eexists. split; reflexivity.
Qed.

(* After the cancel has taken effect no later operation sequence - the rest of the file
   data, the EOF, retransmissions, timeouts - writes the destination file or anything else:
   a cancelled transfer leaves under the destination name exactly what was there when the
   cancel took effect (a file only if it had been delivered completely before). *)
Theorem C10_no_file_after_cancel : forall ops now (s : rstate FS),
  r_fs (rrun ops (cancel now s)) = r_fs s /\ r_phase (rrun ops (cancel now s)) <> RecvData.
Proof.
  intros ops now s.
  destruct (C10_cancel_effect now s) as (Hp & _ & Hf & _).
  destruct (frozen_run FS fs_write_file fs_exec resp_fail not_performed cksum resp_len req_len ops
              (cancel now s)) as (A & B).
  - unfold not_recv. rewrite Hp. discriminate.
  - split; [congruence|exact B].
Qed.

(* the same for a cancel requested by the peer: an EOF PDU with a condition other than NoError *)
Theorem C10_peer_cancel : forall ops now e (s : rstate FS), eof_cond e <> NoError ->
  let s1 := fst (rstep FS fs_write_file fs_exec resp_fail not_performed cksum resp_len req_len now (RPdu (PEof e)) s) in
  r_fs (rrun ops s1) = r_fs s /\ r_phase s1 <> RecvData.
Proof.
  intros ops now e s Hc. cbn zeta.
  set (s1 := fst (rstep FS fs_write_file fs_exec resp_fail not_performed cksum resp_len req_len now (RPdu (PEof e)) s)).
  assert (H1 : r_fs s1 = r_fs s /\ r_phase s1 <> RecvData).
  { unfold s1, rstep, process_pdu. cbn [fst].
    set (s0 := if suspended (set_r_out [] s) then set_r_out [] s else upd_inact (c_reset now) (set_r_out [] s)).
    assert (Hs0 : r_fs s0 = r_fs s) by (unfold s0; destruct (suspended _); reflexivity).
    assert (Hce : cond_eqb (eof_cond e) NoError = false).
    { unfold cond_eqb. destruct (eof_cond e); cbn; try reflexivity. congruence. }
    destruct (cfg_mode (r_cfg s0)); cbn [fst]; unfold pdu_eof_acked, pdu_eof_unacked;
      destruct (rphase_eqb (r_phase s0) RecvData) eqn:Ep; cbn [negb].
    - cbn [r_cond set_r_cond prepare_ack_eof set_r_ack set_r_cksum emit_ind set_r_out]. rewrite Hce.
      split; [rewrite (proj1 (keeps_cancel_ FS now _)); cbn; exact Hs0|].
      unfold cancel_. destruct (cfg_mode _); [|destruct (closure _)]; cbn; discriminate.
    - split; [cbn; exact Hs0|]. cbn. destruct (r_phase s0); cbn in Ep; congruence.
    - cbn [r_cond set_r_cond set_r_cksum emit_ind set_r_out]. rewrite Hce.
      split; [rewrite (proj1 (keeps_cancel_ FS now _)); cbn; exact Hs0|].
      unfold cancel_. destruct (cfg_mode _); [|destruct (closure _)]; cbn; discriminate.
    - split; [exact Hs0|]. destruct (r_phase s0); cbn in Ep; congruence. }
  destruct H1 as (A & B).
  destruct (frozen_run FS fs_write_file fs_exec resp_fail not_performed cksum resp_len req_len ops s1 B) as (C & _).
  split; [congruence|exact B].
Qed.
End C10.

(* ---- the sending entity (Model/Send.v) ---- *)
From CFDP Require Import Model.Send Proofs.CancelDataP.
(* a user cancel, in any phase and state, moves the send transaction to the Cancelled phase, and
   from there (or from the phase entered on a Finished PDU) NO operation - retransmission requests
   included - makes it transmit file data or Metadata again or return to a transmitting phase:
   only EOF(cancel), ACK(Finished) and Prompt PDUs can follow *)
Theorem C10_user_cancel_ends_data : forall cksum resp_len req_len now s,
  let s' := fst (sstep cksum resp_len req_len now SCancelOp s) in
  s_phase s' = SCancelled /\ Forall no_data (s_out s').
Proof. exact cancel_ends_data. Qed.
Theorem C10_cancelled_sender_sends_no_data : forall cksum resp_len req_len now o s,
  s_phase s = SCancelled \/ s_phase s = SFinished ->
  let s' := fst (sstep cksum resp_len req_len now o s) in
  (s_phase s' = SCancelled \/ s_phase s' = SFinished) /\ Forall no_data (s_out s').
Proof. exact ND_sstep. Qed.

(* non-vacuity: cancel in the middle of a transfer, then the rest of the data and the EOF arrive *)
Definition ex_cfg : config := mkConfig Acked false false 16 3 10000 3000 4000 [] 1 2 7 1 1.
Definition ex_md : metadata := mkMeta [115] [100] 5 CkModular false [] [].
Definition ex_run (ops : list (N * rop)) :=
  rrun flat_write inst_exec inst_resp_fail inst_not_performed inst_cksum inst_tlv_len inst_tlv_len ops
       (r_new 0 ex_cfg (Deferred 0) ([] : flat_fs)).
Example C10_nonvacuous :
  let s := ex_run [(0, RPdu (PMetadata ex_md)); (1, RPdu (PFileData 0 [1; 2])); (2, RCancelOp);
                   (3, RPdu (PFileData 2 [3; 4; 5]));
                   (4, RPdu (PEof (mkEof NoError (inst_cksum CkModular [1; 2; 3; 4; 5]) 5 None)))] in
  r_phase s = RCancelled /\ flat_lookup (r_fs s) [100] = None /\ r_cond s = CancelReceived.
Proof. vm_compute. auto. Qed.

Print Assumptions C10_cancel_effect.
Print Assumptions C10_no_file_after_cancel.
Print Assumptions C10_peer_cancel.
Print Assumptions C10_user_cancel_ends_data.
Print Assumptions C10_cancelled_sender_sends_no_data.
