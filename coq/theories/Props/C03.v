(* C03 — every transaction ends in bounded time: the mechanised part.
   Pinned statements only. PARTIAL: what is proved is (1) an active transaction is never stuck -
   the loop's send arm is enabled or a timer with a finite deadline is running - for every
   reachable state of both machines, and (2) every running timer reaches its limit after exactly
   max_count periods (C17), at which the configured handler cancels / abandons (C17 dispatch).
   and (3) no spinning: after the timeout arm has run at some instant, the transaction is no longer
   active, or has something to send, or its next deadline lies strictly in the future.
   The closed-form bound on the whole run (phase ranking over the two limit rounds) is not
   mechanised; it is exercised on model and code by the idle-drive runs of the correspondence. *)
From CFDP Require Import Base.Prelude Model.Segments Model.Timer Model.TxTypes Model.Recv Model.Send
  Proofs.TimerP Proofs.RecvInv Proofs.SendP Proofs.NoSpinP Proofs.SendArmP Proofs.RecvArmP.

(* Receiver: the invariant "active => inactivity timer running" holds initially and is kept by
   every operation; hence an active receive transaction always has a finite next deadline. *)
Theorem C03_receiver_invariant : forall FS fs_write_file fs_exec resp_fail not_performed cksum resp_len req_len
  now o (s : rstate FS), RL FS s ->
  RL FS (fst (rstep FS fs_write_file fs_exec resp_fail not_performed cksum resp_len req_len now o s)).
Proof. exact RL_rstep. Qed.
Theorem C03_receiver_initial : forall FS now cfg np (fs : FS), RL FS (r_new now cfg np fs).
Proof. exact RL_init. Qed.
Theorem C03_receiver_never_stuck : forall FS now (s : rstate FS), RL FS s -> r_state s = TActive ->
  until_timeout now s <> None.
Proof. exact recv_never_stuck. Qed.

(* Sender: the invariant SL is kept by every operation executed while the loop runs (state not
   Terminated); under it an active send transaction has something to send or a timer running -
   in particular after its EOF(cancel) has been acknowledged (the inactivity timer runs). *)
Theorem C03_sender_invariant : forall cksum resp_len req_len now o s, SL s -> s_state s <> TTerminated ->
  SL (fst (sstep cksum resp_len req_len now o s)).
Proof. exact SL_sstep. Qed.
Theorem C03_sender_initial : forall now cfg m file, SL (s_new now cfg m file).
Proof. exact SL_init. Qed.
Theorem C03_sender_never_stuck : forall now s, SL s -> s_state s = TActive ->
  s_has_pdu_to_send s = true \/ s_until_timeout now s <> None.
Proof. exact send_never_stuck. Qed.


(* No spinning, receiver. TW: every timer of the transaction (inactivity, ACK, NAK, the NAK delay
   timers) has a positive period and the delay timers run; AP: while data is being received the
   ACK timer is stopped. Both hold initially (positive configured timeouts) and are kept by every
   operation; under them the timeout arm, run at any instant, leaves the transaction inactive, or
   with something to send, or with every deadline strictly in the future - the defect repaired by
   4ef52c0 (an expired NAK timer with nothing to request) was a violation of exactly this. *)
Theorem C03_receiver_timers_invariant : forall FS fs_write_file fs_exec resp_fail not_performed cksum resp_len req_len
  now o (s : rstate FS), TW FS s /\ AP FS s ->
  TW FS (fst (rstep FS fs_write_file fs_exec resp_fail not_performed cksum resp_len req_len now o s)) /\
  AP FS (fst (rstep FS fs_write_file fs_exec resp_fail not_performed cksum resp_len req_len now o s)).
Proof. intros. destruct H as (A & B). split; [apply TW_rstep; exact A|apply AP_rstep; exact B]. Qed.
Theorem C03_receiver_timers_initial : forall FS now cfg np (fs : FS),
  0 < cfg_t_inact cfg -> 0 < cfg_t_ack cfg -> 0 < cfg_t_nak cfg ->
  TW FS (r_new now cfg np fs) /\ AP FS (r_new now cfg np fs).
Proof. intros. split; [apply TW_init; assumption|apply AP_init]. Qed.
Theorem C03_receiver_no_spin : forall FS now (s : rstate FS), TW FS s -> AP FS s ->
  let s' := handle_timeout now s in
  r_state s' = TActive -> has_pdu_to_send s' = false -> forall x, until_timeout now s' = Some x -> 0 < x.
Proof. exact recv_timeout_progress. Qed.

(* No spinning, sender. ST: positive periods of the inactivity and ACK timers, NAK timer never started. *)
Theorem C03_sender_timers_invariant : forall cksum resp_len req_len now o s, ST s -> ST (fst (sstep cksum resp_len req_len now o s)).
Proof. exact ST_sstep. Qed.
Theorem C03_sender_timers_initial : forall now cfg m file, 0 < cfg_t_inact cfg -> 0 < cfg_t_ack cfg -> ST (s_new now cfg m file).
Proof. exact ST_init. Qed.
Theorem C03_sender_no_spin : forall cksum now s, ST s ->
  let s' := s_handle_timeout cksum now s in
  s_state s' = TActive -> s_has_pdu_to_send s' = false -> forall x, s_until_timeout now s' = Some x -> 0 < x.
Proof. exact send_timeout_progress. Qed.

(* a running timer with a positive limit reaches it after exactly max_count periods *)
Theorem C03_timer_limit_in_bounded_time : forall t0 now c, 0 < c_timeout c -> 0 < c_max c -> t0 <= now ->
  snd (c_limit_reached now (c_reset t0 c)) = (t0 + c_max c * c_timeout c <=? now).
Proof. exact limit_after_reset. Qed.

Example C03_nonvacuous :
  let cfg := mkConfig Acked false false 16 2 10000 3000 4000 [] 1 2 7 1 1 in
  let s := s_new 0 cfg (mkMeta [115] [100] 0 CkNull false [] []) [] in
  SL s /\ s_state s = TActive /\ s_has_pdu_to_send s = true.
Proof. cbn zeta. split; [apply SL_init|split; reflexivity]. Qed.

(* (4) the send arm never spins: whenever has_pdu_to_send enables it (in ANY state, no invariant
   needed), one run of send_pdu makes progress - the sender emits at least one PDU or indication or
   consumes one queued retransmission request; the receiver emits at least one PDU or indication
   (ACK(EOF), Keep Alive, NAK, Finished - or the NAK-limit fault). The select! loop takes the send
   arm whenever it is enabled, so an enabled arm that did nothing would never let the task wait. *)
Theorem C03_sender_send_arm_progress : forall cksum resp_len req_len now s,
  s_has_pdu_to_send s = true ->
  let s' := fst (s_send_pdu cksum resp_len req_len now s) in
  (length (s_out s) < length (s_out s'))%nat \/ (length (s_naks s') < length (s_naks s))%nat.
Proof. exact s_send_arm_progress. Qed.
Theorem C03_receiver_send_arm_progress : forall FS resp_len req_len now (s : rstate FS),
  has_pdu_to_send s = true -> (length (r_out s) < length (r_out (send_pdu resp_len req_len now s)))%nat.
Proof. exact r_send_arm_progress. Qed.

Print Assumptions C03_receiver_invariant.
Print Assumptions C03_receiver_initial.
Print Assumptions C03_receiver_never_stuck.
Print Assumptions C03_sender_invariant.
Print Assumptions C03_sender_initial.
Print Assumptions C03_sender_never_stuck.
Print Assumptions C03_timer_limit_in_bounded_time.
Print Assumptions C03_receiver_timers_invariant.
Print Assumptions C03_receiver_timers_initial.
Print Assumptions C03_receiver_no_spin.
Print Assumptions C03_sender_timers_invariant.
Print Assumptions C03_sender_timers_initial.
Print Assumptions C03_sender_no_spin.
Print Assumptions C03_sender_send_arm_progress.
Print Assumptions C03_receiver_send_arm_progress.
