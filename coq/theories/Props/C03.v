(* C03 — every transaction ends in bounded time: the mechanised part.
   Pinned statements only. PARTIAL: what is proved is (1) an active transaction is never stuck -
   the loop's send arm is enabled or a timer with a finite deadline is running - for every
   reachable state of both machines, and (2) every running timer reaches its limit after exactly
   max_count periods (C17), at which the configured handler cancels / abandons (C17 dispatch).
   The closed-form bound on the whole run (phase ranking over the two limit rounds) is not
   mechanised; it is exercised on model and code by the idle-drive runs of the correspondence. *)
From CFDP Require Import Base.Prelude Model.Segments Model.Timer Model.TxTypes Model.Recv Model.Send
  Proofs.TimerP Proofs.RecvInv Proofs.SendP.

(* Receiver: the invariant "active => inactivity timer running" holds initially and is kept by
   every operation; hence an active receive transaction always has a finite next deadline. *)
Theorem C03_receiver_invariant : forall FS fs_write_file fs_exec resp_fail not_performed cksum resp_len req_len
  now o (s : rstate FS), RL FS s ->
  RL FS (fst (rstep FS fs_write_file fs_exec resp_fail not_performed cksum resp_len req_len now o s)).
Proof. exact RL_rstep. Qed.
Theorem C03_receiver_initial : forall FS now cfg np (fs : FS), RL FS (r_new now cfg np fs).
Proof. exact RL_init. Qed.
Theorem C03_receiver_never_stuck : forall FS now (s : rstate FS), RL FS s -> r_state s = TActive ->
  until_timeout now s <> None.
Proof. exact recv_never_stuck. Qed.

(* Sender: the invariant SL is kept by every operation executed while the loop runs (state not
   Terminated); under it an active send transaction has something to send or a timer running -
   in particular after its EOF(cancel) has been acknowledged (the inactivity timer runs). *)
Theorem C03_sender_invariant : forall cksum resp_len req_len now o s, SL s -> s_state s <> TTerminated ->
  SL (fst (sstep cksum resp_len req_len now o s)).
Proof. exact SL_sstep. Qed.
Theorem C03_sender_initial : forall now cfg m file, SL (s_new now cfg m file).
Proof. exact SL_init. Qed.
Theorem C03_sender_never_stuck : forall now s, SL s -> s_state s = TActive ->
  s_has_pdu_to_send s = true \/ s_until_timeout now s <> None.
Proof. exact send_never_stuck. Qed.

(* a running timer with a positive limit reaches it after exactly max_count periods *)
Theorem C03_timer_limit_in_bounded_time : forall t0 now c, 0 < c_timeout c -> 0 < c_max c -> t0 <= now ->
  snd (c_limit_reached now (c_reset t0 c)) = (t0 + c_max c * c_timeout c <=? now).
Proof. exact limit_after_reset. Qed.

Example C03_nonvacuous :
  let cfg := mkConfig Acked false false 16 2 10000 3000 4000 [] 1 2 7 1 1 in
  let s := s_new 0 cfg (mkMeta [115] [100] 0 CkNull false [] []) [] in
  SL s /\ s_state s = TActive /\ s_has_pdu_to_send s = true.
Proof. cbn zeta. split; [apply SL_init|split; reflexivity]. Qed.

Print Assumptions C03_receiver_invariant.
Print Assumptions C03_receiver_initial.
Print Assumptions C03_receiver_never_stuck.
Print Assumptions C03_sender_invariant.
Print Assumptions C03_sender_initial.
Print Assumptions C03_sender_never_stuck.
Print Assumptions C03_timer_limit_in_bounded_time.
