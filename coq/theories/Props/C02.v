(* C02 — acknowledged mode recovers from any bounded loss, duplication and reordering.
   Pinned statements only. PARTIAL: what is mechanised is the recovery argument at the data level
   (one loss-free NAK / retransmission round completes the file from ANY state of the receiver's
   bookkeeping, in any order and with any duplication), the exactness of the requests (C08), the
   well-formedness of the retransmitted pieces (C07) and the stubbornness of the timers (C17).
   The liveness composition over the two-machine system (Model/Link.v) - "for every placement of
   fewer than max_count faults the run completes" - is not mechanised; it is exercised on the
   extracted system model and on the real transactions by the `link` correspondence stream, whose
   oracle is the property itself. *)
From CFDP Require Import Base.Prelude Model.Segments Model.Timer Model.TxTypes Model.Recv Model.Send
  Model.TxInst Model.Link Proofs.SegmentsP Proofs.TimerP Proofs.RecvInv Proofs.SendP Proofs.RecoverP.

(* L2, one clean round suffices: for every well-formed bookkeeping v (every reachable one is,
   C09), every file size and segment size: if the requests the receiver computes, gaps v 0 fsize,
   are answered with the pieces the sender cuts them into and those arrive, the file is complete -
   an empty file, a missing first segment, a missing tail included. *)
Theorem C02_one_clean_round_suffices : forall v fsize seg, Inv v -> 0 < seg ->
  is_complete (ins_all (flat_map (split_request seg fsize) (gaps v 0 fsize)) v) fsize = true.
Proof. exact recovery_round. Qed.

(* ... in whatever order the pieces arrive, however often, and whatever else arrives with them *)
Theorem C02_any_order_any_duplication : forall v fsize seg pcs, Inv v -> 0 < seg ->
  (forall pc, In pc (flat_map (split_request seg fsize) (gaps v 0 fsize)) -> In pc pcs) ->
  (forall pc, In pc pcs -> snd pc <= fsize) ->
  is_complete (ins_all pcs v) fsize = true.
Proof. exact recovery_round_any_order. Qed.

(* the pieces of one request cover the part of the request inside the file *)
Theorem C02_pieces_cover_request : forall seg fsize a e0 x, 0 < seg -> a <= x < N.min e0 fsize ->
  exists pc, In pc (split_request seg fsize (a, e0)) /\ fst pc <= x < snd pc.
Proof. exact split_covers. Qed.

(* what the receiver asks for after the EOF is exactly what is missing (C08) *)
Theorem C02_requests_exactly_what_is_missing : forall FS (s : rstate FS) fsz, Inv (r_segs s) -> r_fsize s = Some fsz ->
  get_all_naks s = (if is_some (r_meta s) then [] else [(0, 0)]) ++ gaps (r_segs s) 0 fsz /\
  (forall x, covered (gaps (r_segs s) 0 fsz) x <-> (x < fsz /\ ~ covered (r_segs s) x)) /\
  (forall a b, In (a, b) (gaps (r_segs s) 0 fsz) -> a < b /\ b <= fsz).
Proof. exact get_all_naks_exact. Qed.

(* stubbornness: a retransmission timer restarted at t0 gives up only after max_count whole periods *)
Theorem C02_timer_gives_up_only_at_limit : forall t0 now c, 0 < c_timeout c -> 0 < c_max c -> t0 <= now ->
  snd (c_limit_reached now (c_reset t0 c)) = (t0 + c_max c * c_timeout c <=? now).
Proof. exact limit_after_reset. Qed.

(* The system model runs (this is an evaluation of the extracted definitions, not a theorem about
   all runs): a 40-byte file, 16-byte segments, limit 3; the metadata and the first segment are
   lost, the EOF is lost once, the first Finished is lost; the run still ends with both machines
   Terminated, the destination file equal to the source, nothing in flight. *)
Example C02_model_run_recovers :
  let cfg := mkConfig Acked false false 16 3 40000 3000 4000 [] 1 2 7 1 1 in
  let f := map N.of_nat (seq 1 40) in
  let md := mkMeta [115] [100] 40 CkModular false [] [] in
  let ops := [LS USend; LDrop true 0; LS USend; LDrop true 0; LS USend; LS USend; LS USend; LDrop true 2;
              LRun 40; LDrop false 1; LRun 400] in
  let l := lrun ops (l_new 0 cfg (Deferred 0) md f) in
  s_state (l_s l) = TTerminated /\ r_state (l_r l) = TTerminated /\
  flat_lookup (r_fs (l_r l)) [100] = Some f /\ l_sr l = [] /\ l_rs l = [].
Proof. vm_compute. auto 10. Qed.

(* the closing steps of the exchange, on the transaction models: (a) a receiver holding the
   metadata, the EOF and every byte finalises at once - Finished phase, Finished PDU ready, NAK
   timer stopped; (b) a sender handed that Finished PDU reports it to its user, has the send arm
   enabled, answers with ACK(Finished) and is Terminated; (c) a receiver in the Finished or
   Cancelled phase that gets the ACK(Finished) is Terminated *)
From CFDP Require Import Proofs.ClosingP.
Theorem C02_closing_receiver_completes : forall FS fs_write_file fs_exec resp_fail not_performed cksum now (s : rstate FS),
  r_phase s = RecvData -> is_some (r_meta s) = true -> eof_received s = true ->
  (is_file_transfer s && has_naks s) = false ->
  let s' := check_finished FS fs_write_file fs_exec resp_fail not_performed cksum now s in
  r_phase s' = RFinished /\ fin_flag s' = true /\ c_paused (t_nak (r_timer s')) = true.
Proof. exact receiver_completes_when_nothing_missing. Qed.
Theorem C02_closing_sender_acks_and_ends : forall cksum resp_len req_len now now' f (s : sstate),
  cfg_mode (s_cfg s) = Acked -> s_state s <> TSuspended ->
  let s1 := fst (s_process_pdu now (PFinished f) s) in
  s_phase s1 = SFinished /\ s_has_pdu_to_send s1 = true /\
  (exists rep, In (OInd (IFinished rep (fin_fs f) (fin_dc f) (fin_resps f))) (s_out s1)) /\
  let s2 := fst (s_send_pdu cksum resp_len req_len now' (set_s_prompt None s1)) in
  s_state s2 = TTerminated /\
  exists p a, In (OPdu p) (s_out s2) /\ o_payload p = PAck a /\ ack_dir a = DirFinished /\ ack_sub a = SubFinished.
Proof. exact sender_acks_finished_and_ends. Qed.
Theorem C02_closing_receiver_ends_on_ack : forall FS fs_write_file fs_exec resp_fail not_performed cksum now a (s : rstate FS),
  cfg_mode (r_cfg s) = Acked -> r_phase s = RFinished \/ r_phase s = RCancelled ->
  ack_dir a = DirFinished -> ack_sub a = SubFinished ->
  r_state (fst (process_pdu FS fs_write_file fs_exec resp_fail not_performed cksum now (PAck a) s)) = TTerminated.
Proof. exact receiver_ends_on_ack_finished. Qed.

(* lost Metadata: the receiver asks with the 0-0 request (C08); it survives the sender's request
   splitting as the marker, and the marker is answered with the Metadata PDU itself *)
Theorem C02_metadata_marker_kept : forall seg fsize, split_request seg fsize (0, 0) = [(0, 0)].
Proof. exact metadata_marker_kept. Qed.
Theorem C02_metadata_retransmitted_on_marker : forall resp_len req_len now t (s : sstate),
  s_naks s = (0, 0) :: t ->
  let s' := fst (send_missing_data resp_len req_len now s) in
  (exists p, s_out s' = OPdu p :: s_out s /\ o_payload p = PMetadata (s_meta s)) /\ s_naks s' = t.
Proof. exact metadata_retransmitted_on_marker. Qed.

(* a queued retransmission request [a, b) is answered with exactly one file data PDU carrying the
   file's bytes of that range; the rest of the queue and the first-pass cursor are left alone *)
Theorem C02_request_answered : forall resp_len req_len now a b t (s : sstate),
  s_naks s = (a, b) :: t -> (a =? 0) && (b - a =? 0) = false -> (65535 <? b - a) = false ->
  let s' := fst (send_missing_data resp_len req_len now s) in
  (exists p, s_out s' = OPdu p :: s_out s /\ o_payload p = PFileData a (slice (s_file s) a (b - a))) /\
  s_naks s' = t /\ s_pos s' = s_pos s.
Proof. exact request_answered. Qed.

Print Assumptions C02_one_clean_round_suffices.
Print Assumptions C02_any_order_any_duplication.
Print Assumptions C02_pieces_cover_request.
Print Assumptions C02_requests_exactly_what_is_missing.
Print Assumptions C02_timer_gives_up_only_at_limit.
Print Assumptions C02_closing_receiver_completes.
Print Assumptions C02_closing_sender_acks_and_ends.
Print Assumptions C02_closing_receiver_ends_on_ack.
Print Assumptions C02_metadata_marker_kept.
Print Assumptions C02_metadata_retransmitted_on_marker.
Print Assumptions C02_request_answered.
