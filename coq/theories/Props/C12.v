(* C12 — filestore operations cannot reach outside the filestore root.
   This file contains only the pinned statements. *)
From CFDP Require Import Base.Prelude Model.Path Proofs.PathP.

(* For every absolute, already-normal root ("/" followed by plain names [ns]) and
   EVERY name (any byte string: any combination of "..", ".", repeated or leading
   separators, the root itself, a sibling whose name extends the root's, ...):
   get_native_path returns a path whose components are the root's components
   followed by plain names only - no ".." and no "." is left in it - and which
   therefore resolves to a location below the root. *)
Theorem C12_native_inside : forall root ns name,
  components root = Root :: map Normal ns ->
  exists p names,
    native root name = Some p /\
    components p = components root ++ map Normal names /\
    resolve (components p) = ns ++ names.
Proof. exact native_inside. Qed.

(* get_native_path applied to its own result returns the same string
   (process_request maps a name twice) *)
Theorem C12_native_idempotent : forall root name p,
  (exists ns, components root = Root :: map Normal ns) ->
  native root name = Some p -> native root p = Some p.
Proof. exact native_idempotent. Qed.

(* every path handed to std::fs by any of the operations of NativeFileStore
   (create, delete, rename, append, replace, create/remove/list directory, open,
   get_size, and process_request for every action code) resolves below the root *)
Theorem C12_every_operation : forall root ns call p,
  components root = Root :: map Normal ns ->
  In p (call_paths root call) ->
  exists s rest, p = Some s /\ resolve (components s) = ns ++ rest.
Proof. exact call_paths_inside. Qed.

(* non-vacuity: root "/r" satisfies the hypothesis; "..", ".", "//", the root itself,
   "<root>/../x" and the sibling "/rx" all land inside "/r" *)
Example C12_nonvacuous :
  components [47; 114] = Root :: map Normal [[114]] /\
  (* "../../x" *)      native [47; 114] [46; 46; 47; 46; 46; 47; 120] = Some [47; 114; 47; 120] /\
  (* "/r/../x" *)      native [47; 114] [47; 114; 47; 46; 46; 47; 120] = Some [47; 114; 47; 120] /\
  (* "/r" *)           native [47; 114] [47; 114] = Some [47; 114; 47] /\
  (* "/rx/y" *)        native [47; 114] [47; 114; 120; 47; 121] = Some [47; 114; 47; 114; 120; 47; 121] /\
  (* ".//a/./b/" *)    native [47; 114] [46; 47; 47; 97; 47; 46; 47; 98; 47] = Some [47; 114; 47; 97; 47; 98] /\
  resolve (components [47; 114; 47; 114; 120; 47; 121]) = [[114]; [114; 120]; [121]].
Proof. vm_compute. repeat split. Qed.

Check C12_native_inside : forall root ns name,
  components root = Root :: map Normal ns ->
  exists p names,
    native root name = Some p /\
    components p = components root ++ map Normal names /\
    resolve (components p) = ns ++ names.
Check C12_native_idempotent : forall root name p,
  (exists ns, components root = Root :: map Normal ns) ->
  native root name = Some p -> native root p = Some p.
Check C12_every_operation : forall root ns call p,
  components root = Root :: map Normal ns ->
  In p (call_paths root call) ->
  exists s rest, p = Some s /\ resolve (components s) = ns ++ rest.

Print Assumptions C12_native_inside.
Print Assumptions C12_native_idempotent.
Print Assumptions C12_every_operation.
