(* C18 — unacknowledged mode is one-way unless closure is requested; closure works.
   Pinned statements only. *)
From CFDP Require Import Base.Prelude Model.Segments Model.Timer Model.TxTypes Model.Recv Model.Send
  Proofs.RecvInv Proofs.SendP.

(* Receiver, unacknowledged mode: the bookkeeping invariant U18 (no ACK / NAK / prompt answer
   ever queued, the NAK timer never runs, a Finished PDU is prepared only if the metadata
   requested closure) holds initially, is kept by every operation, and under it the only PDU
   any operation can emit is a Finished PDU - and that only with closure requested. *)
Theorem C18_receiver_initial : forall FS now cfg np (fs : FS), cfg_mode cfg = Unacked ->
  U18 FS (r_new now cfg np fs).
Proof.
  intros FS now cfg np fs H. unfold U18, r_new, closure, nak_idle. cbn. splits; auto; discriminate.
Qed.

Theorem C18_receiver_oneway : forall FS fs_write_file fs_exec resp_fail not_performed cksum resp_len req_len
  now o (s : rstate FS), U18 FS s ->
  let s' := fst (rstep FS fs_write_file fs_exec resp_fail not_performed cksum resp_len req_len now o s) in
  U18 FS s' /\ Forall only_finished (r_out s') /\
  (Exists (fun x => ~ no_pdu x) (r_out s') -> closure s = true).
Proof. exact U18_rstep. Qed.

(* A receiver that is missing data or metadata does not report a complete delivery: the
   delivery code set by a finalisation is Complete exactly when the metadata is present and,
   for a file transfer, every byte of [0, EOF file size) is held (C09: is_complete). *)
Theorem C18_complete_only_if_all_received : forall FS fs_write_file fs_exec resp_fail not_performed cksum
  now (s : rstate FS),
  r_dc (finalize_receive FS fs_write_file fs_exec resp_fail not_performed cksum now s) =
  if delivery_complete s then DComplete else DIncomplete.
Proof. exact finalize_dc. Qed.

(* Sender, unacknowledged mode: the phase "ACK of Finished pending" is never entered, and what
   the send arm emits is Metadata, file data, EOF (or a Prompt) only. *)
Theorem C18_sender_invariant : forall cksum resp_len req_len now o s,
  SU s -> SU (fst (sstep cksum resp_len req_len now o s)).
Proof. exact SU_sstep. Qed.

Theorem C18_sender_oneway : forall cksum resp_len req_len now s, SU s -> Forall oneway_pdu (s_out s) ->
  Forall oneway_pdu (s_out (fst (s_send_pdu cksum resp_len req_len now s))).
Proof. exact sender_oneway. Qed.

(* Sending the EOF ends the transaction without closure and keeps it open with closure ... *)
Theorem C18_sender_waits_with_closure : forall cksum resp_len req_len now s e,
  cfg_mode (s_cfg s) = Unacked -> s_phase s = SendEof -> s_prompt s = None -> s_naks s = [] ->
  s_eof s = Some (e, true) ->
  let s' := fst (s_send_pdu cksum resp_len req_len now s) in
  In (OPdu (mkOpdu true (payload_len (s_cfg s) resp_len req_len (PEof e)) (cfg_dst (s_cfg s)) (PEof e))) (s_out s') /\
  (md_closure (s_meta s) = true -> s_state s' = s_state s) /\
  (md_closure (s_meta s) = false -> s_state s' = TTerminated).
Proof. exact sender_eof_closure. Qed.

(* ... until the Finished PDU arrives, whose outcome (condition, delivery code, file status,
   filestore responses) is reported to the user; only then does the transaction end. *)
Theorem C18_sender_reports_finished : forall now s f,
  cfg_mode (s_cfg s) = Unacked -> md_closure (s_meta s) = true ->
  let s' := fst (s_process_pdu now (PFinished f) s) in
  s_state s' = TTerminated /\
  exists r, In (OInd (IFinished r (fin_fs f) (fin_dc f) (fin_resps f))) (s_out s') /\ trp_cond r = fin_cond f.
Proof. exact sender_finished_unacked. Qed.

Example C18_nonvacuous :
  let cfg := mkConfig Unacked false false 16 3 10000 3000 4000 [] 1 2 7 1 1 in
  U18 unit (r_new 0 cfg (Deferred 0) tt) /\
  SU (s_new 0 cfg (mkMeta [115] [100] 0 CkNull true [] []) []).
Proof. split; [apply C18_receiver_initial; reflexivity | apply SU_init; reflexivity]. Qed.

Print Assumptions C18_receiver_initial.
Print Assumptions C18_receiver_oneway.
Print Assumptions C18_complete_only_if_all_received.
Print Assumptions C18_sender_invariant.
Print Assumptions C18_sender_oneway.
Print Assumptions C18_sender_waits_with_closure.
Print Assumptions C18_sender_reports_finished.
