(* C11 — concurrent transactions are isolated; stray PDUs cannot disturb the daemon.
   Pinned statements only. PARTIAL: what is mechanised is the routing core of lib.rs - the table
   of registered transactions and the sequence counter, with forward_pdu / process_primitive /
   cleanup_transactions as functions on them (Model/Daemon.v). The transactions themselves are
   Recv.v / Send.v (each terminates by its own limits, C03; a completed delivery is final, C04; a
   success report implies destination = source, C01); that concurrently running tokio tasks do
   not disturb each other through the runtime is exercised on the real daemons by the `daemon`
   correspondence stream (whose oracle is the property itself), not proved. *)
From CFDP Require Import Base.Prelude Model.Daemon Proofs.DaemonP Proofs.DaemonRunP.
From CFDP Require Import Model.Timer Model.TxTypes Model.Recv Model.Send Proofs.HeaderP Proofs.RecvHeaderP.

(* identifiers: up to 2^(8w) consecutive Put requests get pairwise distinct transaction ids
   (w = width of the sequence number; beyond that the counter wraps by design of VariableID) *)
Theorem C11_put_ids_distinct : forall n dest s, has_transport dest s = true ->
  d_next s < seq_modulus (d_width s) -> N.of_nat n <= seq_modulus (d_width s) -> NoDup (puts n dest s).
Proof. exact put_ids_distinct. Qed.

(* a Put hands out (this entity, current counter) and advances the counter modulo 2^(8w) - also
   when no transaction can be started; forwarding PDUs never touches the counter *)
Theorem C11_put_counter : forall dest ok s,
  let '(s', _, id) := d_put dest ok s in
  d_next s' = (d_next s + 1) mod seq_modulus (d_width s) /\ d_entity s' = d_entity s /\ d_width s' = d_width s /\
  d_transports s' = d_transports s /\ (id = None \/ id = Some (d_entity s, d_next s)).
Proof. exact put_counter. Qed.

(* isolation at the routing level: a PDU reaches, creates or replaces only the transaction
   registered under its own (source entity, sequence number); every other registration is
   untouched and none is removed *)
Theorem C11_forward_frame : forall ts src dst seq closed s,
  let '(s', res, target) := d_forward ts src dst seq closed s in
  (forall k, k <> (src, seq) -> (In k (d_tbl s') <-> In k (d_tbl s))) /\
  (In (src, seq) (d_tbl s) -> In (src, seq) (d_tbl s')) /\
  (forall k, target = Some k -> k = (src, seq) /\ In k (d_tbl s')) /\
  d_next s' = d_next s.
Proof. exact forward_frame. Qed.

(* stray PDUs: a response addressed to a sender that does not exist ... *)
Theorem C11_stray_to_sender_discarded : forall src dst seq closed s, kmem (src, seq) (d_tbl s) = false ->
  d_forward true src dst seq closed s = (s, (if has_transport dst s then DUnable else DOk), None).
Proof. exact stray_to_sender_discarded. Qed.
(* ... and a PDU naming an entity without transport change nothing at all *)
Theorem C11_no_transport_discarded : forall (ts : bool) src dst seq closed s, kmem (src, seq) (d_tbl s) = false ->
  has_transport (if ts then dst else src) s = false -> d_forward ts src dst seq closed s = (s, DOk, None).
Proof. exact no_transport_discarded. Qed.
(* a ToReceiver PDU with an unknown id registers a receive transaction under exactly that id *)
Theorem C11_unknown_to_receiver_spawns : forall src dst seq closed s, kmem (src, seq) (d_tbl s) = false ->
  has_transport src s = true ->
  let '(s', res, target) := d_forward false src dst seq closed s in
  res = DOk /\ target = Some (src, seq) /\ (forall k, In k (d_tbl s') <-> k = (src, seq) \/ In k (d_tbl s)).
Proof. exact unknown_to_receiver_spawns. Qed.

(* user commands reach only the transaction they name; cleanup only removes ended ones *)
Theorem C11_command_frame : forall id closed s,
  let '(s', res, target) := d_command id closed s in s' = s /\ (forall k, target = Some k -> k = id /\ In k (d_tbl s)).
Proof. exact command_frame. Qed.
Theorem C11_cleanup_only_removes : forall ended s,
  (forall k, In k (d_tbl (d_cleanup ended s)) <-> In k (d_tbl s) /\ ~ In k ended) /\
  d_next (d_cleanup ended s) = d_next s.
Proof. exact cleanup_only_removes. Qed.

(* the result type has no fatal case: every outcome of forward_pdu is one manage_transactions
   logs and survives (Ok, UnableToResume, TransactionCommunication) - by construction of dres;
   the correspondence stream maps any other error of the real handlers to FATAL, which the model
   never predicts *)
Example C11_nonvacuous :
  let s := d_new 1 1 254 [2] in
  puts 3 2 s = [(1, 254); (1, 255); (1, 0)] /\
  fst (fst (d_forward false 2 1 7 false s)) = mkD 1 1 254 [(2, 7)] [2] /\
  d_forward true 1 2 9 false s = (s, DUnable, None).
Proof. vm_compute. auto. Qed.

(* over histories of the routing core: whatever the daemon handles between two Put requests - PDUs of
   any kind, strays included, user commands, clean-ups ([dev] = one handler call, [put_ids] = the ids
   given to the Puts that started a transaction) - the ids of its first 2^(8w) Put requests are
   pairwise distinct and all carry this daemon's own entity id *)
Theorem C11_history_put_ids_distinct : forall evs s, d_next s < seq_modulus (d_width s) ->
  nputs evs <= seq_modulus (d_width s) -> NoDup (put_ids evs s).
Proof. exact history_put_ids_distinct. Qed.
Theorem C11_history_put_ids_own : forall evs s id, d_next s < seq_modulus (d_width s) ->
  In id (put_ids evs s) -> fst id = d_entity s.
Proof. exact history_put_ids_own. Qed.
Example C11_history_nonvacuous :
  let s := d_new 1 1 254 [2] in
  put_ids [EPut 2 true; EFwd false 2 1 254 false; EPut 2 true; EClean [(1, 254)]; EPut 2 true; ECmd (1, 0) false; EPut 3 true] s
  = [(1, 254); (1, 255); (1, 0)].
Proof. vm_compute. reflexivity. Qed.

(* what a transaction puts on the link (Model/Recv.v, Model/Send.v): EVERY PDU a receive
   transaction emits, in any state and after any operation, is directed to the file sender and
   handed to the transport of ITS OWN source entity; every PDU a send transaction emits is
   directed to the file receiver and handed to the transport of its own destination entity; both
   announce the length of their own payload, and the configuration (entity ids, sequence number
   widths, flags) a transaction was created with never changes - a transaction never addresses
   another entity or impersonates the other direction *)
Theorem C11_receiver_addresses_only_its_peer : forall FS fs_write_file fs_exec resp_fail not_performed cksum
  resp_len req_len cfg now o (s : rstate FS),
  RH FS resp_len req_len cfg s ->
  RH FS resp_len req_len cfg (fst (rstep FS fs_write_file fs_exec resp_fail not_performed cksum resp_len req_len now o s)).
Proof. exact RH_rstep. Qed.
Theorem C11_receiver_addresses_initial : forall FS resp_len req_len cfg now np (fs : FS),
  RH FS resp_len req_len cfg (r_new now cfg np fs).
Proof. exact RH_init. Qed.
Theorem C11_sender_addresses_only_its_peer : forall cksum resp_len req_len cfg now o s,
  HD resp_len req_len cfg s -> HD resp_len req_len cfg (fst (sstep cksum resp_len req_len now o s)).
Proof. exact HD_sstep. Qed.
Check (fun FS resp_len req_len cfg (s : rstate FS) (H : RH FS resp_len req_len cfg s) => H :
  r_cfg s = cfg /\ Forall (fun o => match o with
                                    | OPdu p => o_to_receiver p = false /\ o_dest p = cfg_src cfg /\
                                                o_len p = payload_len cfg resp_len req_len (o_payload p)
                                    | OInd _ => True end) (r_out s)).

Print Assumptions C11_put_ids_distinct.
Print Assumptions C11_put_counter.
Print Assumptions C11_forward_frame.
Print Assumptions C11_stray_to_sender_discarded.
Print Assumptions C11_no_transport_discarded.
Print Assumptions C11_unknown_to_receiver_spawns.
Print Assumptions C11_command_frame.
Print Assumptions C11_cleanup_only_removes.
Print Assumptions C11_receiver_addresses_only_its_peer.
Print Assumptions C11_receiver_addresses_initial.
Print Assumptions C11_sender_addresses_only_its_peer.
Print Assumptions C11_history_put_ids_distinct.
Print Assumptions C11_history_put_ids_own.
