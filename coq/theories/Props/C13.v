(* C13 — filestore requests act as CFDP defines, once, in order, reported truthfully.
   This file contains only the pinned statements (filestore level: process_request
   and the fail-the-rest loop; transaction level: the loop of finalize_receive over an abstract
   filestore, and "once": requests and responses are frozen when the data phase is left). *)
From CFDP Require Import Base.Prelude Model.Path Model.FsModel Proofs.PathP Proofs.FsModelP.
From CFDP Require Import Model.Timer Model.TxTypes Model.Recv Model.Send Model.TxInst Proofs.RecvP Proofs.RecvRun Proofs.RespP.

(* every request, on every tree: the status reported is the one the declarative
   table [spec_status] assigns to the current tree (success exactly when the
   precondition holds, the specific failure code otherwise); on success the new tree
   is, location by location, the one [spec_lookup] defines (everything else is
   unchanged); on any other status the tree is unchanged; the response echoes the
   request *)
Theorem C13_request_refines_spec : forall root t r,
  (exists ns, components root = Root :: map Normal ns) ->
  exists p p2 rep t',
    native_names root (req_name1 r) = Some p /\
    native_names root (req_name2 r) = Some p2 /\
    process_request root t r = Some (rep, t') /\
    resp_action rep = req_action r /\
    resp_name1 rep = req_name1 r /\ resp_name2 rep = req_name2 r /\
    resp_status rep = spec_status t (req_action r) p p2 /\
    (resp_status rep = 0 -> forall q, lookup t' q = spec_lookup t (req_action r) p p2 q) /\
    (resp_status rep <> 0 -> t' = t).
Proof. exact process_request_spec. Qed.

(* the location [native_names] assigns to a name is the one get_native_path (C12) computes *)
Theorem C13_location_is_native_path : forall root name,
  native root name = match native_names root name with
                     | Some p => Some (join root (render p))
                     | None => None
                     end.
Proof. exact native_by_names. Qed.

Theorem C13_failed_request_changes_nothing : forall root t r rep t',
  process_request root t r = Some (rep, t') -> resp_status rep <> 0 -> t' = t.
Proof.
  intros root t r rep t' H Hs. apply (process_request_fail_unchanged root t r rep t' H).
  apply is_fail_iff. exact Hs.
Qed.

(* the loop: one response per request, in the order given *)
Theorem C13_one_response_per_request_in_order : forall root t reqs out t',
  exec_requests root t reqs = Some (out, t') ->
  map (fun rep => (resp_action rep, resp_name1 rep, resp_name2 rep)) out =
  map (fun r => (req_action r, req_name1 r, req_name2 r)) reqs.
Proof. intros root t reqs out t'. exact (exec_loop_in_order root reqs false t out t'). Qed.

(* the requests before the first failure are executed one after the other, the failing
   one reports its status and changes nothing, every later one is NotPerformed and has
   no effect: the final tree is the tree reached before the failing request *)
Theorem C13_first_failure_stops_execution : forall root pre t r post outs t1 rep t2,
  seq_exec root t pre = Some (outs, t1) ->
  Forall (fun rep => is_fail rep = false) outs ->
  process_request root t1 r = Some (rep, t2) -> is_fail rep = true ->
  exec_requests root t (pre ++ r :: post) = Some (outs ++ rep :: map not_performed post, t1) /\ t2 = t1.
Proof. exact exec_first_failure. Qed.

(* without a failure every request is executed, in order *)
Theorem C13_all_executed_without_failure : forall root reqs t outs t',
  seq_exec root t reqs = Some (outs, t') ->
  Forall (fun rep => is_fail rep = false) outs ->
  exec_requests root t reqs = Some (outs, t').
Proof. exact exec_no_failure. Qed.

(* the two cases are exhaustive, and the loop always returns *)
Theorem C13_cases_exhaustive : forall root reqs,
  (exists ns, components root = Root :: map Normal ns) -> forall t,
  (exists outs t', seq_exec root t reqs = Some (outs, t') /\ Forall (fun rep => is_fail rep = false) outs) \/
  (exists pre r post outs t1 rep t2,
      reqs = pre ++ r :: post /\ seq_exec root t pre = Some (outs, t1) /\
      Forall (fun rep => is_fail rep = false) outs /\
      process_request root t1 r = Some (rep, t2) /\ is_fail rep = true).
Proof. exact exec_cases. Qed.

Theorem C13_loop_total : forall root reqs t,
  (exists ns, components root = Root :: map Normal ns) ->
  exists out t', exec_requests root t reqs = Some (out, t').
Proof. exact exec_total. Qed.

(* the model's states are directory trees: every entry lies in an existing directory,
   and every request list preserves that *)
Theorem C13_tree_stays_tree : forall root reqs t out t',
  wf t -> exec_requests root t reqs = Some (out, t') -> wf t'.
Proof. intros root reqs t out t'. exact (exec_loop_wf root reqs false t out t'). Qed.

(* non-vacuity: root "/r"; tree { f1 = "a", d1/ , d1/f = "b" };
   create "new", append "d1/f" to "new", delete "missing" (fails), create "x" (not performed) *)
Definition ex_tree : tree :=
  [ ([], Dir); ([[102; 49]], File [97]); ([[100; 49]], Dir); ([[100; 49]; [102]], File [98]) ].
Definition ex_reqs : list request :=
  [ mk_request ACreateFile [110; 101; 119] [];
    mk_request AAppendFile [110; 101; 119] [100; 49; 47; 102];
    mk_request ADeleteFile [109; 105; 115; 115] [];
    mk_request ACreateFile [120] [] ].

Example C13_nonvacuous :
  components [47; 114] = Root :: map Normal [[114]] /\
  wf ex_tree /\
  match exec_requests [47; 114] ex_tree ex_reqs with
  | Some (out, t') =>
      map resp_status out = [0; 0; 1; 15] /\
      lookup t' [[110; 101; 119]] = Some (File [98]) /\
      lookup t' [[120]] = None /\
      lookup t' [[102; 49]] = Some (File [97])
  | None => False
  end.
Proof.
  split; [reflexivity|]. split.
  - intros q n H Hne. unfold ex_tree in *. cbn [lookup] in H.
    destruct (fpath_eqb [] q) eqn:E1; [apply fpath_eqb_eq in E1; subst q; vm_compute; reflexivity|].
    destruct (fpath_eqb [[102; 49]] q) eqn:E2; [apply fpath_eqb_eq in E2; subst q; vm_compute; reflexivity|].
    destruct (fpath_eqb [[100; 49]] q) eqn:E3; [apply fpath_eqb_eq in E3; subst q; vm_compute; reflexivity|].
    destruct (fpath_eqb [[100; 49]; [102]] q) eqn:E4; [apply fpath_eqb_eq in E4; subst q; vm_compute; reflexivity|].
    discriminate.
  - vm_compute. repeat split.
Qed.

(* ---- transaction level (Model/Recv.v, over ANY filestore [fs_exec]) ---- *)
(* finalize_receive's loop: the requests are executed left to right, each on the filestore the
   previous one left, up to and including the first whose response is a failure; every later
   request is reported not-performed and does not touch the filestore; one response per request *)
Theorem C13_tx_loop_shape : forall FS fs_exec resp_fail not_performed (fs : FS) reqs,
  let '(fs', done, rest) := exec_prefix FS fs_exec resp_fail fs reqs in
  run_requests FS fs_exec resp_fail not_performed fs false reqs = (fs', done ++ map not_performed rest) /\
  length (snd (run_requests FS fs_exec resp_fail not_performed fs false reqs)) = length reqs.
Proof.
  intros FS fs_exec resp_fail not_performed fs reqs.
  pose proof (run_requests_spec FS fs_exec resp_fail not_performed fs reqs) as H.
  destruct (exec_prefix FS fs_exec resp_fail fs reqs) as [[fs' dn] rest]. split; [exact H|].
  apply run_requests_length.
Qed.

Example C13_tx_nonvacuous :
  run_requests (list bytes) (fun fs r => (r :: fs, r)) (fun rep => is_nil rep) (fun r => [255]) [] false [[1]; []; [3]]
  = ([[]; [1]], [[1]; []; [255]]).
Proof. vm_compute. reflexivity. Qed.

(* the step that runs them: responses to the user (Finished indication) = responses stored for
   the Finished PDU = what the loop returned; the filestore is the one the loop left *)
Theorem C13_tx_same_responses_everywhere : forall FS fs_exec resp_fail not_performed (s : rstate FS),
  let s' := fr_requests FS fs_exec resp_fail not_performed s in
  let '(fs', resps) := run_requests FS fs_exec resp_fail not_performed (r_fs s) false (meta_reqs s) in
  r_fs s' = fs' /\ r_resps s' = resps /\
  (exists rep fst_ dc, r_out s' = OInd (IFinished rep fst_ dc resps) :: r_out s) /\
  forall fl, exists f, r_fin (prepare_finished fl s') = Some (f, true) /\ fin_resps f = resps.
Proof.
  intros FS fs_exec resp_fail not_performed s. cbn zeta. unfold fr_requests.
  destruct (run_requests FS fs_exec resp_fail not_performed (r_fs s) false (meta_reqs s)) as [fs' resps].
  cbn. splits; auto.
  - eexists; eexists; eexists; reflexivity.
  - intros fl. eexists. split; reflexivity.
Qed.

(* once: when the receive-data phase has been left, no operation sequence executes a request
   (filestore unchanged, C04) or changes the recorded responses *)
Theorem C13_tx_once : forall FS fs_write_file fs_exec resp_fail not_performed cksum resp_len req_len
  ops (s : rstate FS), r_phase s <> RecvData ->
  r_resps (rrun fs_write_file fs_exec resp_fail not_performed cksum resp_len req_len ops s) = r_resps s /\
  r_fs (rrun fs_write_file fs_exec resp_fail not_performed cksum resp_len req_len ops s) = r_fs s.
Proof.
  intros. split; [apply resps_frozen_run; assumption|]. apply frozen_run. assumption.
Qed.

(* the Finished PDU: invariant RQ - while the transaction is receiving data no Finished PDU is
   held ready, and whenever one is held ready it carries exactly the recorded responses - holds
   initially and is kept by EVERY operation (faults with any handler, cancels, suspensions,
   timeouts, duplicates); hence the Finished PDU the send arm puts on the link carries the
   responses the finalisation recorded and reported to the user. (This needs the repaired
   unacknowledged EOF handler, fix 860603f.) *)
Theorem C13_tx_finished_pdu_invariant_initial : forall FS now cfg np (fs : FS), RQ FS (r_new now cfg np fs).
Proof. exact RQ_init. Qed.
Theorem C13_tx_finished_pdu_invariant : forall FS fs_write_file fs_exec resp_fail not_performed cksum
  resp_len req_len now o (s : rstate FS),
  RQ FS s -> RQ FS (fst (rstep FS fs_write_file fs_exec resp_fail not_performed cksum resp_len req_len now o s)).
Proof. exact RQ_rstep. Qed.
Theorem C13_tx_finished_pdu_carries_responses : forall FS resp_len req_len now (s : rstate FS) p f,
  RQ FS s -> In (OPdu p) (r_out (send_finished resp_len req_len now s)) -> ~ In (OPdu p) (r_out s) ->
  o_payload p = PFinished f -> fin_resps f = r_resps s.
Proof. exact finished_pdu_carries_responses. Qed.
Check (fun FS (s : rstate FS) (H : RQ FS s) => H :
  (r_phase s = RecvData -> r_fin s = None) /\ (forall f b, r_fin s = Some (f, b) -> fin_resps f = r_resps s)).

(* the sending user: a Finished PDU handed to the send transaction (acknowledged mode, or
   unacknowledged with closure) produces a Finished indication carrying exactly the PDU's responses *)
Theorem C13_tx_sender_shows_responses : forall now f (s : sstate),
  cfg_mode (s_cfg s) = Acked \/ md_closure (s_meta s) = true ->
  exists rep fst_ dc, In (OInd (IFinished rep fst_ dc (fin_resps f))) (s_out (fst (s_process_pdu now (PFinished f) s))).
Proof.
  intros now f s H. unfold s_process_pdu.
  set (s0 := if sphase_eqb (s_phase s) SendEof && negb (ssuspended s) then supd_inact (c_reset now) s else s).
  assert (E : cfg_mode (s_cfg s0) = cfg_mode (s_cfg s) /\ md_closure (s_meta s0) = md_closure (s_meta s))
    by (unfold s0; destruct (_ && _); cbn; auto).
  destruct E as (E1 & E2). clearbody s0. rewrite <- E1, <- E2 in H.
  destruct (cfg_mode (s_cfg s0)) eqn:Em; cbn [fst].
  - eexists; eexists; eexists. cbn. left. reflexivity.
  - destruct H as [H|H]; [discriminate|]. rewrite H. cbn [fst].
    eexists; eexists; eexists. cbn. left. reflexivity.
Qed.

Check C13_request_refines_spec : forall root t r,
  (exists ns, components root = Root :: map Normal ns) ->
  exists p p2 rep t',
    native_names root (req_name1 r) = Some p /\
    native_names root (req_name2 r) = Some p2 /\
    process_request root t r = Some (rep, t') /\
    resp_action rep = req_action r /\
    resp_name1 rep = req_name1 r /\ resp_name2 rep = req_name2 r /\
    resp_status rep = spec_status t (req_action r) p p2 /\
    (resp_status rep = 0 -> forall q, lookup t' q = spec_lookup t (req_action r) p p2 q) /\
    (resp_status rep <> 0 -> t' = t).
Check C13_failed_request_changes_nothing : forall root t r rep t',
  process_request root t r = Some (rep, t') -> resp_status rep <> 0 -> t' = t.
Check C13_one_response_per_request_in_order : forall root t reqs out t',
  exec_requests root t reqs = Some (out, t') ->
  map (fun rep => (resp_action rep, resp_name1 rep, resp_name2 rep)) out =
  map (fun r => (req_action r, req_name1 r, req_name2 r)) reqs.
Check C13_first_failure_stops_execution : forall root pre t r post outs t1 rep t2,
  seq_exec root t pre = Some (outs, t1) ->
  Forall (fun rep => is_fail rep = false) outs ->
  process_request root t1 r = Some (rep, t2) -> is_fail rep = true ->
  exec_requests root t (pre ++ r :: post) = Some (outs ++ rep :: map not_performed post, t1) /\ t2 = t1.

Print Assumptions C13_request_refines_spec.
Print Assumptions C13_location_is_native_path.
Print Assumptions C13_failed_request_changes_nothing.
Print Assumptions C13_one_response_per_request_in_order.
Print Assumptions C13_first_failure_stops_execution.
Print Assumptions C13_all_executed_without_failure.
Print Assumptions C13_cases_exhaustive.
Print Assumptions C13_loop_total.
Print Assumptions C13_tree_stays_tree.
Print Assumptions C13_tx_loop_shape.
Print Assumptions C13_tx_same_responses_everywhere.
Print Assumptions C13_tx_once.
Print Assumptions C13_tx_sender_shows_responses.
Print Assumptions C13_tx_finished_pdu_invariant_initial.
Print Assumptions C13_tx_finished_pdu_invariant.
Print Assumptions C13_tx_finished_pdu_carries_responses.
