(* C01 — a file reported as delivered is byte-identical to the source file.
   Pinned statements: the receiver half at the data level (unbounded induction over the PDUs
   received), its glue with the receive-transaction model, and the sender half (C07). The
   composition over the two-machine system with a lossy link is stated in DESIGN.md and is not
   mechanised (partial). *)
From CFDP Require Import Base.Prelude Model.Segments Model.Timer Model.TxTypes Model.Recv Model.Send
  Proofs.SegmentsP Proofs.StageP Proofs.RecvInv Proofs.SendP.

(* Receiver half. For every source file f and every sequence of file data PDUs that are
   truthful for f (each carries f's bytes at its offset and lies inside f) - in any order, with
   any duplication, overlap and re-segmentation: as soon as the receiver's bookkeeping says
   [0, |f|) is complete, the staged file IS f, length and bytes. The checksum plays no role, so
   this holds for checksum-neutral contents and the null checksum alike. *)
Theorem C01_staged_file_is_source : forall f pdus, Forall (truthful_fd f) pdus ->
  is_complete (snd (stage pdus)) (N.of_nat (length f)) = true -> fst (stage pdus) = f.
Proof. exact staged_equals_source. Qed.

(* the model's store_file_data performs exactly that staging step ... *)
Theorem C01_store_is_stage_step : forall FS off d (s : rstate FS),
  (staged_content (store_file_data off d s), r_segs (store_file_data off d s)) =
  stage1 (staged_content s, r_segs s) (off, d).
Proof. exact store_is_stage1. Qed.

(* ... a finalisation stores the staged content under the destination name ... *)
Theorem C01_delivered_file_is_staged_file : forall FS fs_write_file (s : rstate FS) fs',
  fs_write_file (r_fs s) (meta_dst s) (staged_content s) = Some fs' ->
  r_fs (fr_store FS fs_write_file s) = fs' /\ r_fstat (fr_store FS fs_write_file s) = FRetained.
Proof. exact fr_store_writes_staged. Qed.

(* ... and reports Complete only if the metadata and every byte of [0, EOF size) are there *)
Theorem C01_complete_only_if_all_received : forall FS fs_write_file fs_exec resp_fail not_performed cksum
  now (s : rstate FS),
  r_dc (finalize_receive FS fs_write_file fs_exec resp_fail not_performed cksum now s) =
  if delivery_complete s then DComplete else DIncomplete.
Proof. exact finalize_dc. Qed.

(* Sender half (C07): every file data PDU a sender for f emits is truthful for f. *)
Theorem C01_sender_emits_truthful_data : forall s p off d, S7 s -> In (OPdu p) (s_out s) ->
  o_payload p = PFileData off d -> truthful_fd (s_file s) (off, d).
Proof.
  intros s p off d (_ & _ & _ & _ & _ & _ & F) Hin Hp.
  rewrite Forall_forall in F. specialize (F _ Hin). unfold fd_ok in F. rewrite Hp in F.
  destruct F as (A & _ & _ & D). unfold truthful_fd. cbn [fst snd]. auto.
Qed.

(* non-vacuity: a 7-byte file received as three out-of-order, overlapping segments *)
Example C01_nonvacuous :
  let f := [10; 20; 30; 40; 50; 60; 70] in
  let pdus := [(4, [50; 60; 70]); (0, [10; 20; 30]); (2, [30; 40; 50])] in
  Forall (truthful_fd f) pdus /\ is_complete (snd (stage pdus)) 7 = true /\ fst (stage pdus) = f.
Proof.
  cbn zeta. splits; [|vm_compute; reflexivity|vm_compute; reflexivity].
  repeat constructor; vm_compute; try reflexivity; intros H; discriminate.
Qed.

Print Assumptions C01_staged_file_is_source.
Print Assumptions C01_store_is_stage_step.
Print Assumptions C01_delivered_file_is_staged_file.
Print Assumptions C01_complete_only_if_all_received.
Print Assumptions C01_sender_emits_truthful_data.
