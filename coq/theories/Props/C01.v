(* C01 — a file reported as delivered is byte-identical to the source file.
   Pinned statements: the receiver half at the data level (unbounded induction over the PDUs
   received), its glue with the receive-transaction model, the receiver half as an invariant of
   the receive-transaction model over every operation and every history, the sender half (C07 and
   the truth of its Metadata / EOF PDUs), and the composition over the two-machine system with a
   lossy, duplicating, reordering link (Model/Link.v). *)
From CFDP Require Import Base.Prelude Model.Segments Model.Timer Model.TxTypes Model.Recv Model.Send
  Model.TxInst Model.Link
  Proofs.SegmentsP Proofs.StageP Proofs.RecvInv Proofs.RecvRun Proofs.SendP Proofs.DeliverP Proofs.LinkP.

(* Receiver half. For every source file f and every sequence of file data PDUs that are
   truthful for f (each carries f's bytes at its offset and lies inside f) - in any order, with
   any duplication, overlap and re-segmentation: as soon as the receiver's bookkeeping says
   [0, |f|) is complete, the staged file IS f, length and bytes. The checksum plays no role, so
   this holds for checksum-neutral contents and the null checksum alike. *)
Theorem C01_staged_file_is_source : forall f pdus, Forall (truthful_fd f) pdus ->
  is_complete (snd (stage pdus)) (N.of_nat (length f)) = true -> fst (stage pdus) = f.
Proof. exact staged_equals_source. Qed.

(* the model's store_file_data performs exactly that staging step ... *)
Theorem C01_store_is_stage_step : forall FS off d (s : rstate FS),
  (staged_content (store_file_data off d s), r_segs (store_file_data off d s)) =
  stage1 (staged_content s, r_segs s) (off, d).
Proof. exact store_is_stage1. Qed.

(* ... a finalisation stores the staged content under the destination name ... *)
Theorem C01_delivered_file_is_staged_file : forall FS fs_write_file (s : rstate FS) fs',
  fs_write_file (r_fs s) (meta_dst s) (staged_content s) = Some fs' ->
  r_fs (fr_store FS fs_write_file s) = fs' /\ r_fstat (fr_store FS fs_write_file s) = FRetained.
Proof. exact fr_store_writes_staged. Qed.

(* ... and reports Complete only if the metadata and every byte of [0, EOF size) are there *)
Theorem C01_complete_only_if_all_received : forall FS fs_write_file fs_exec resp_fail not_performed cksum
  now (s : rstate FS),
  r_dc (finalize_receive FS fs_write_file fs_exec resp_fail not_performed cksum now s) =
  if delivery_complete s then DComplete else DIncomplete.
Proof. exact finalize_dc. Qed.

(* Sender half (C07): every file data PDU a sender for f emits is truthful for f. *)
Theorem C01_sender_emits_truthful_data : forall s p off d, S7 s -> In (OPdu p) (s_out s) ->
  o_payload p = PFileData off d -> truthful_fd (s_file s) (off, d).
Proof.
  intros s p off d (_ & _ & _ & _ & _ & _ & F) Hin Hp.
  rewrite Forall_forall in F. specialize (F _ Hin). unfold fd_ok in F. rewrite Hp in F.
  destruct F as (A & _ & _ & D). unfold truthful_fd. cbn [fst snd]. auto.
Qed.

(* Receiver half as an invariant (DeliverP.v). Inputs are truthful for (f, m) when every file data
   PDU carries f's bytes at its offset inside f, every Metadata PDU is m, every NoError EOF states
   |f|; ACKs, prompts, Finished, NAKs, user requests and timeouts are unconstrained. The filestore
   is abstract: any type with a write and a lookup such that a successful write is visible. For
   EVERY history of truthful inputs - any order, duplication, loss, interleaving with user requests
   and timer expiries - if the transaction ever emits a Finished indication or a Finished PDU
   saying Retained / Complete, then at the end of the history the filestore holds exactly f under
   the destination name. The checksum plays no role. (m carries no filestore requests: those could
   legitimately rename or delete the delivered file.) *)
Theorem C01_receiver_history : forall FS fs_write_file fs_exec resp_fail not_performed cksum resp_len req_len
  (lookup : FS -> bytes -> option bytes),
  (forall fs name content fs', fs_write_file fs name content = Some fs' -> lookup fs' name = Some content) ->
  forall f m, md_reqs m = [] ->
  forall ops (s : rstate FS), DG FS lookup f m s -> truthful_ops f m ops ->
  forall o, In o (routs fs_write_file fs_exec resp_fail not_performed cksum resp_len req_len ops s) -> success_out o ->
  lookup (r_fs (rrun fs_write_file fs_exec resp_fail not_performed cksum resp_len req_len ops s)) (md_dst m) = Some f.
Proof. exact delivered_is_source. Qed.

(* the invariant holds for a new transaction, and every single operation keeps it *)
Theorem C01_receiver_initial : forall FS (lookup : FS -> bytes -> option bytes) f m now cfg np fs,
  DG FS lookup f m (r_new now cfg np fs).
Proof. intros. left. apply DU_init. Qed.
Theorem C01_receiver_step : forall FS fs_write_file fs_exec resp_fail not_performed cksum resp_len req_len
  (lookup : FS -> bytes -> option bytes),
  (forall fs name content fs', fs_write_file fs name content = Some fs' -> lookup fs' name = Some content) ->
  forall f m, md_reqs m = [] -> forall now o (s : rstate FS), DU FS lookup f m s -> truthful_in f m o ->
  DG FS lookup f m (fst (rstep FS fs_write_file fs_exec resp_fail not_performed cksum resp_len req_len now o s)).
Proof. exact DG_rstep. Qed.

(* Sender half, the directives: every Metadata PDU a sender emits is its metadata, every EOF PDU
   states the metadata's file size (= |f| by C07), and its file never changes *)
Theorem C01_sender_directives_truthful : forall cksum resp_len req_len f m now o s,
  SE f m s -> SE f m (fst (sstep cksum resp_len req_len now o s)).
Proof. exact SE_sstep. Qed.

(* Sender half, the outcome it reports: a send transaction reports Retained / Complete only after
   it was handed a Finished PDU saying so ([Delivered] stands for whatever such a PDU guarantees) *)
Theorem C01_sender_reports_what_it_was_told : forall cksum resp_len req_len (f0 : bytes) (Delivered : Prop) now o s,
  SF Delivered s ->
  (forall fn, o = SPdu (PFinished fn) -> fin_fs fn = FRetained -> fin_dc fn = DComplete -> Delivered) ->
  SF Delivered (fst (sstep cksum resp_len req_len now o s)).
Proof. exact SF_sstep. Qed.

(* Composition. In the two-machine system started for file f and metadata m, after ANY script of
   link and user behaviour (deliver any PDU in flight, duplicate, drop, cut a direction, user
   cancel/suspend/resume/report/prompt at either end, time advances, the loops left alone):
   every PDU in flight towards the receiver is truthful; whenever the receive transaction claimed
   Retained / Complete during the last operation - and whenever the SEND transaction reported
   Retained / Complete to its user during the last operation - the receiving filestore holds
   exactly f under the destination name. *)
Theorem C01_system : forall f m, md_reqs m = [] ->
  forall now cfg np ops, md_size m = N.of_nat (length f) -> 0 < cfg_seg cfg ->
  let l := lrun ops (l_new now cfg np m f) in
  Forall (truthful_pl f m) (l_sr l) /\
  (forall o, In o (l_racc l) -> success_out o -> flat_lookup (r_fs (l_r l)) (md_dst m) = Some f) /\
  (forall o, In o (l_sacc l) -> s_success o -> flat_lookup (r_fs (l_r l)) (md_dst m) = Some f).
Proof. exact system_delivered. Qed.

(* non-vacuity: a 7-byte file received as three out-of-order, overlapping segments *)
Example C01_nonvacuous :
  let f := [10; 20; 30; 40; 50; 60; 70] in
  let pdus := [(4, [50; 60; 70]); (0, [10; 20; 30]); (2, [30; 40; 50])] in
  Forall (truthful_fd f) pdus /\ is_complete (snd (stage pdus)) 7 = true /\ fst (stage pdus) = f.
Proof.
  cbn zeta. splits; [|vm_compute; reflexivity|vm_compute; reflexivity].
  repeat constructor; vm_compute; try reflexivity; intros H; discriminate.
Qed.
(* ... and a system run in which the premise of C01_system is met: a lossy exchange at the end of
   which the receiver did emit a success claim *)
Example C01_system_nonvacuous :
  let cfg := mkConfig Acked false false 16 3 40000 3000 4000 [] 1 2 7 1 1 in
  let f := map N.of_nat (seq 1 40) in
  let md := mkMeta [115] [100] 40 CkModular false [] [] in
  let ops := [LS USend; LDrop true 0; LS USend; LS USend; LDrop true 1; LRun 400] in
  let l := lrun ops (l_new 0 cfg (Deferred 0) md f) in
  existsb (fun o => match o with OInd (IFinished _ FRetained DComplete _) => true | _ => false end) (l_racc l) = true /\
  existsb (fun o => match o with OInd (IFinished _ FRetained DComplete _) => true | _ => false end) (l_sacc l) = true /\
  flat_lookup (r_fs (l_r l)) [100] = Some f.
Proof. vm_compute. auto. Qed.

Print Assumptions C01_staged_file_is_source.
Print Assumptions C01_store_is_stage_step.
Print Assumptions C01_delivered_file_is_staged_file.
Print Assumptions C01_complete_only_if_all_received.
Print Assumptions C01_sender_emits_truthful_data.
Print Assumptions C01_receiver_history.
Print Assumptions C01_receiver_initial.
Print Assumptions C01_receiver_step.
Print Assumptions C01_sender_directives_truthful.
Print Assumptions C01_sender_reports_what_it_was_told.
Print Assumptions C01_system.
