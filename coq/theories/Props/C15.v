(* C15 — with the CRC option on, corrupted PDUs are rejected.
   This file contains only the pinned statements.

   Vocabulary (Model/Crc.v, Model/CrcBits.v):
     m                     header and data field of a PDU as the sender's encoder produced them
     m ++ crc_bytes m      the frame on the wire (PDU::encode with CRCFlag::Present)
     e                     an error pattern, xor-ed onto the frame octet by octet (xor_bytes)
     crc_frame_ok f        the receiver's check: CRC-16 of all octets of f but the last two equals
                           the last two (PDU::decode after /repo commit dded641)
     bit_at e k            bit k of e in transmission order (bit 7 of octet 0 first)            *)
From CFDP Require Import Base.Prelude Model.Crc Model.CrcBits Proofs.CrcP.

(* an unaltered frame is always accepted (any octets, any length, including the empty message) *)
Theorem C15_clean_accepted : forall m : list N, crc_frame_ok (m ++ crc_bytes m) = true.
Proof. exact crc_frame_clean. Qed.

(* the CRC is an affine map: the CRC of a corrupted message differs from the CRC of the message
   by the register run over the error pattern from initial value 0 *)
Theorem C15_crc_affine : forall m d : list N, length m = length d ->
  crc16 (xor_bytes m d) = N.lxor (crc16 m) (crc_run 0 d).
Proof. exact crc16_xor. Qed.

(* every single-bit error, in a frame of any length, is detected *)
Theorem C15_single_bit : forall m e : list N,
  is_bytes m -> is_bytes e -> length e = length (m ++ crc_bytes m) ->
  single_bit_error e ->
  crc_frame_ok (xor_bytes (m ++ crc_bytes m) e) = false.
Proof. exact detect_single. Qed.

(* every double-bit error whose two flips are less than 32767 bit positions apart is detected
   (32767 = order of x modulo x^16+x^12+x^5+1; frames of up to 4095 octets lie inside the window
   entirely) *)
Theorem C15_double_bit_window : forall m e : list N,
  is_bytes m -> is_bytes e -> length e = length (m ++ crc_bytes m) ->
  double_bit_error 32767 e ->
  crc_frame_ok (xor_bytes (m ++ crc_bytes m) e) = false.
Proof. exact detect_double. Qed.

(* every non-zero error confined to 16 consecutive bit positions is detected *)
Theorem C15_burst16 : forall m e : list N,
  is_bytes m -> is_bytes e -> length e = length (m ++ crc_bytes m) ->
  burst_error 16 e ->
  crc_frame_ok (xor_bytes (m ++ crc_bytes m) e) = false.
Proof. exact detect_burst. Qed.

(* every error that flips an odd number of bits is detected *)
Theorem C15_odd_weight : forall m e : list N,
  is_bytes m -> is_bytes e -> length e = length (m ++ crc_bytes m) ->
  odd_weight_error e ->
  crc_frame_ok (xor_bytes (m ++ crc_bytes m) e) = false.
Proof. exact detect_odd. Qed.

(* the receiver delimits the frame from the first four octets alone: two arrivals with the same
   first four octets are cut to the same number of octets *)
Theorem C15_frame_delimited_by_header : forall a b f g : list N,
  firstn 4 a = firstn 4 b -> frame_span a = Some f -> frame_span b = Some g -> length f = length g.
Proof. exact frame_span_same_header. Qed.

(* the decoder: for ANY decoder that, when the CRC flag of the header is set, accepts only if the
   octets it delimits as the frame pass the CRC check (this is how the codec model's PDU decoder is
   built; tied to PDU::decode by the correspondence check), a CRC-bearing PDU hit by a detectable
   error that leaves the four fixed header octets alone is rejected - whatever follows it in the
   datagram (t). *)
Theorem C15_corrupt_rejected :
  forall (PDU : Type) (decode : list N -> option PDU),
  (forall b p, decode b = Some p -> crc_flag_of_header b = true ->
     exists f, frame_span b = Some f /\ crc_frame_ok f = true) ->
  forall m e t : list N,
  is_bytes m -> is_bytes e ->
  crc_flag_of_header m = true ->
  frame_len_of_header m = Some (length m + 2)%nat ->
  length e = length (m ++ crc_bytes m) ->
  fixed_header_untouched e ->
  crc16_detectable e ->
  decode (xor_bytes (m ++ crc_bytes m) e ++ t) = None.
Proof. exact corrupt_rejected. Qed.

(* the same two facts for the executable check that the correspondence runs against PDU::decode
   (receiver_frame_check = delimit the frame from the header, then crc_frame_ok on it) *)
Theorem C15_model_check_rejects : forall m e t : list N,
  is_bytes m -> is_bytes e ->
  crc_flag_of_header m = true ->
  frame_len_of_header m = Some (length m + 2)%nat ->
  length e = length (m ++ crc_bytes m) ->
  fixed_header_untouched e ->
  crc16_detectable e ->
  receiver_frame_check (xor_bytes (m ++ crc_bytes m) e ++ t) = false.
Proof. exact receiver_frame_check_rejects. Qed.

Theorem C15_model_check_clean : forall m t : list N,
  crc_flag_of_header m = true ->
  frame_len_of_header m = Some (length m + 2)%nat ->
  receiver_frame_check ((m ++ crc_bytes m) ++ t) = true /\
  receiver_consumed ((m ++ crc_bytes m) ++ t) = Some (length m + 2)%nat.
Proof. exact receiver_frame_check_clean. Qed.

(* ---- non-vacuity ---- *)

(* the hypotheses of C15_corrupt_rejected are satisfiable together: the historical witness (an EOF
   PDU as produced by the real encoder, one flipped bit in its condition code) *)
Example C15_nonvacuous_witness :
  is_bytes witness_msg /\ is_bytes witness_err /\
  crc_bytes witness_msg = [77; 183] /\
  crc_flag_of_header witness_msg = true /\
  frame_len_of_header witness_msg = Some (length witness_msg + 2)%nat /\
  length witness_err = length (witness_msg ++ crc_bytes witness_msg) /\
  fixed_header_untouched witness_err /\
  single_bit_error witness_err /\ burst_error 16 witness_err /\ odd_weight_error witness_err.
Proof. exact witness_facts. Qed.

Example C15_nonvacuous_double :
  is_bytes witness_err2 /\ length witness_err2 = length (witness_msg ++ crc_bytes witness_msg) /\
  fixed_header_untouched witness_err2 /\ double_bit_error 32767 witness_err2.
Proof. exact witness_err2_double. Qed.

(* a decoder satisfying the hypothesis exists and accepts the unaltered witness *)
Example C15_nonvacuous_decoder :
  let decode := fun b : list N =>
    match frame_span b with Some f => if crc_frame_ok f then Some f else None | None => None end in
  (forall b p, decode b = Some p -> crc_flag_of_header b = true ->
     exists f, frame_span b = Some f /\ crc_frame_ok f = true) /\
  decode (witness_msg ++ crc_bytes witness_msg) = Some (witness_msg ++ crc_bytes witness_msg) /\
  decode (xor_bytes (witness_msg ++ crc_bytes witness_msg) witness_err) = None.
Proof.
  cbv zeta. splits; [|vm_compute; reflexivity|vm_compute; reflexivity].
  intros b p H _. destruct (frame_span b) as [f|]; [|discriminate H].
  destruct (crc_frame_ok f) eqn:E; [|discriminate H]. exists f. split; [reflexivity|exact E].
Qed.

(* the window is tight: two flips exactly 32767 positions apart are NOT detected *)
Example C15_double_bit_window_tight :
  is_bytes far_msg /\ is_bytes far_err /\ length far_err = length (far_msg ++ crc_bytes far_msg) /\
  fixed_header_untouched far_err /\ double_bit_error 32768 far_err /\
  crc_frame_ok (xor_bytes (far_msg ++ crc_bytes far_msg) far_err) = true.
Proof. exact double_bit_window_tight. Qed.

Check C15_clean_accepted : forall m : list N, crc_frame_ok (m ++ crc_bytes m) = true.
Check C15_crc_affine : forall m d : list N, length m = length d ->
  crc16 (xor_bytes m d) = N.lxor (crc16 m) (crc_run 0 d).
Check C15_single_bit : forall m e : list N,
  is_bytes m -> is_bytes e -> length e = length (m ++ crc_bytes m) ->
  single_bit_error e -> crc_frame_ok (xor_bytes (m ++ crc_bytes m) e) = false.
Check C15_double_bit_window : forall m e : list N,
  is_bytes m -> is_bytes e -> length e = length (m ++ crc_bytes m) ->
  double_bit_error 32767 e -> crc_frame_ok (xor_bytes (m ++ crc_bytes m) e) = false.
Check C15_burst16 : forall m e : list N,
  is_bytes m -> is_bytes e -> length e = length (m ++ crc_bytes m) ->
  burst_error 16 e -> crc_frame_ok (xor_bytes (m ++ crc_bytes m) e) = false.
Check C15_odd_weight : forall m e : list N,
  is_bytes m -> is_bytes e -> length e = length (m ++ crc_bytes m) ->
  odd_weight_error e -> crc_frame_ok (xor_bytes (m ++ crc_bytes m) e) = false.
Check C15_frame_delimited_by_header : forall a b f g : list N,
  firstn 4 a = firstn 4 b -> frame_span a = Some f -> frame_span b = Some g -> length f = length g.
Check C15_corrupt_rejected :
  forall (PDU : Type) (decode : list N -> option PDU),
  (forall b p, decode b = Some p -> crc_flag_of_header b = true ->
     exists f, frame_span b = Some f /\ crc_frame_ok f = true) ->
  forall m e t : list N,
  is_bytes m -> is_bytes e ->
  crc_flag_of_header m = true ->
  frame_len_of_header m = Some (length m + 2)%nat ->
  length e = length (m ++ crc_bytes m) ->
  fixed_header_untouched e ->
  crc16_detectable e ->
  decode (xor_bytes (m ++ crc_bytes m) e ++ t) = None.

Check C15_model_check_rejects : forall m e t : list N,
  is_bytes m -> is_bytes e ->
  crc_flag_of_header m = true ->
  frame_len_of_header m = Some (length m + 2)%nat ->
  length e = length (m ++ crc_bytes m) ->
  fixed_header_untouched e ->
  crc16_detectable e ->
  receiver_frame_check (xor_bytes (m ++ crc_bytes m) e ++ t) = false.
Check C15_model_check_clean : forall m t : list N,
  crc_flag_of_header m = true ->
  frame_len_of_header m = Some (length m + 2)%nat ->
  receiver_frame_check ((m ++ crc_bytes m) ++ t) = true /\
  receiver_consumed ((m ++ crc_bytes m) ++ t) = Some (length m + 2)%nat.

Print Assumptions C15_clean_accepted.
Print Assumptions C15_crc_affine.
Print Assumptions C15_single_bit.
Print Assumptions C15_double_bit_window.
Print Assumptions C15_burst16.
Print Assumptions C15_odd_weight.
Print Assumptions C15_frame_delimited_by_header.
Print Assumptions C15_corrupt_rejected.
Print Assumptions C15_model_check_rejects.
Print Assumptions C15_model_check_clean.
