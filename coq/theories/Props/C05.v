(* C05 — every well-formed PDU survives encode then decode unchanged, and the length announced
   in advance equals the number of bytes produced.  Pinned statements only.
   [wf_pdu], [wf_uo], [wf_report] (Model/Codec.v, Model/CodecUser.v) are the wire format's own
   limits: LV strings <= 255 bytes (file names valid UTF-8), a filestore response inside a
   Finished PDU <= 255 bytes (it is a TLV value there), segment metadata <= 63 bytes, source and
   destination entity id of equal width (1/2/4/8), offsets and sizes < 2^32 under the small-file
   flag, EOF fault location present iff the condition is an error (Finished: none without an
   error), ACK of EOF/Finished with the matching subtype, header type matching the payload,
   data-field length = payload length <= 65535 (65533 with CRC).  [blen b] is [N.of_nat (length b)]. *)
From CFDP Require Import Base.Prelude Model.PduUser Model.CodecBase Model.Codec Model.CodecUser
  Proofs.CodecBaseP Proofs.CodecP Proofs.CodecUserP Proofs.CodecBytesP.

Theorem pdu_roundtrip : forall p, wf_pdu p -> pdu_decode (pdu_encode p) = Ok p.
Proof. exact pdu_roundtrip_holds. Qed.

(* whole PDU: header + payload + the two CRC bytes when the CRC flag is set *)
Theorem pdu_len : forall p, wf_pdu p -> blen (pdu_encode p) = pdu_encoded_len p.
Proof. exact pdu_len_holds. Qed.

(* the data-field length a sender announces in the header (payload.encoded_len) *)
Theorem payload_len_announced : forall f p,
  wf_payload f p -> blen (payload_encode f p) = payload_encoded_len f p.
Proof. exact payload_len. Qed.

Theorem header_roundtrip : forall h r, wf_header h -> header_decode (header_encode h ++ r) = Ok (h, r).
Proof. exact header_rt. Qed.

Theorem uo_roundtrip : forall u r, wf_uo u -> uo_decode (uo_encode u ++ r) = Ok (u, r).
Proof. exact uo_rt_holds. Qed.

Theorem uo_len : forall u, blen (uo_encode u) = uo_encoded_len u.
Proof. exact uo_len_holds. Qed.

Theorem report_roundtrip : forall p r, wf_report p -> report_decode (report_encode p ++ r) = Ok (p, r).
Proof. exact report_rt_holds. Qed.

(* what the encoders produce are byte strings (every element < 256), so the decode theorems of
   C06, which are about byte strings, apply to every encoding *)
Theorem encodings_are_bytes :
  (forall p, wf_pdu p -> is_bytes (pdu_encode p)) /\
  (forall u, wf_uo u -> is_bytes (uo_encode u)) /\
  (forall p, is_bytes (report_encode p)).
Proof. splits; [exact pdu_encode_bytes_holds | exact uo_encode_bytes_holds | exact report_encode_bytes_holds]. Qed.

(* non-vacuity: well-formed values exist for every clause, with and without CRC *)
Example C05_nonvacuous :
  wf_pdu (witness_pdu CRCFlag_Present) /\ wf_pdu (witness_pdu CRCFlag_NotPresent) /\
  pdu_encode (witness_pdu CRCFlag_Present) = [34; 0; 7; 0; 1; 2; 3; 12; 0; 0; 0; 9; 3; 155] /\
  wf_uo (Uo_Request (Rq_RemoteSuspend (VU64 72623859790382856) (VU64 9))) /\
  wf_report (mk_report (VU8 1) (VU16 300) TransactionState_Active TransactionStatus_Active Condition_NoError).
Proof.
  splits; try apply witness_pdu_wf; try (vm_compute; reflexivity);
    unfold wf_uo, wf_request, wf_report, wf_varid, two64; cbn; splits; lia.
Qed.

Check pdu_roundtrip : forall p, wf_pdu p -> pdu_decode (pdu_encode p) = Ok p.
Check pdu_len : forall p, wf_pdu p -> blen (pdu_encode p) = pdu_encoded_len p.
Check payload_len_announced : forall f p, wf_payload f p -> blen (payload_encode f p) = payload_encoded_len f p.
Check header_roundtrip : forall h r, wf_header h -> header_decode (header_encode h ++ r) = Ok (h, r).
Check uo_roundtrip : forall u r, wf_uo u -> uo_decode (uo_encode u ++ r) = Ok (u, r).
Check uo_len : forall u, blen (uo_encode u) = uo_encoded_len u.
Check report_roundtrip : forall p r, wf_report p -> report_decode (report_encode p ++ r) = Ok (p, r).

Print Assumptions pdu_roundtrip.
Print Assumptions pdu_len.
Print Assumptions payload_len_announced.
Print Assumptions header_roundtrip.
Print Assumptions uo_roundtrip.
Print Assumptions uo_len.
Print Assumptions report_roundtrip.
Print Assumptions encodings_are_bytes.
