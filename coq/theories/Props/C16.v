(* C16 — a datagram is decoded from its own bytes only.
   This file contains only the pinned statements. The decoder is universally
   quantified: the statements do not depend on the PDU codec. *)
From CFDP Require Import Base.Prelude Model.Udp Proofs.UdpP.

(* one receive: whatever the buffer holds from earlier datagrams, the result is
   the decoding of exactly the bytes of this datagram *)
Theorem C16_own_bytes_only : forall (A : Type) (decode : list N -> option A) buf d,
  (length d <= length buf)%nat -> snd (recv decode buf d) = decode d.
Proof. exact recv_decodes_datagram. Qed.

(* history independence: any sequence of datagrams received through the same
   transport (same buffer) decodes, one by one, like each datagram alone *)
Theorem C16_history_independent : forall (A : Type) (decode : list N -> option A) ds buf,
  Forall (fun d => (length d <= length buf)%nat) ds -> run decode buf ds = map decode ds.
Proof. exact run_is_map. Qed.

(* the buffer keeps its size, so the bound on datagram lengths is the constant 65535 *)
Theorem C16_buffer_size_kept : forall (A : Type) (decode : list N -> option A) buf d,
  length (fst (recv decode buf d)) = length buf.
Proof. exact recv_buffer_length. Qed.

(* a datagram truncated in flight is rejected instead of being completed with stale
   data, for every decoder that rejects strict prefixes of what it accepts *)
Theorem C16_truncated_rejected : forall (A : Type) (decode : list N -> option A) buf e k,
  (forall b j, decode b <> None -> (j < length b)%nat -> decode (firstn j b) = None) ->
  (length e <= length buf)%nat -> decode e <> None -> (k < length e)%nat ->
  snd (recv decode buf (firstn k e)) = None.
Proof. exact truncated_rejected. Qed.

(* non-vacuity: the hypothesis of C16_truncated_rejected is satisfiable (a length-prefixed
   decoder), the buffer of the transport has 65535 bytes, and a history with a longer
   datagram followed by a truncated one *)
Example C16_nonvacuous :
  length udp_initial_buffer = N.to_nat 65535 /\
  run toy_decode (repeat 0 8) [[2; 7; 8]; [2]; [1; 9]; []] = [Some [7; 8]; None; Some [9]; None] /\
  toy_decode (firstn 2 [2; 7; 8]) = None.
Proof. split; [apply repeat_length | vm_compute; auto]. Qed.

Check C16_own_bytes_only : forall (A : Type) (decode : list N -> option A) buf d,
  (length d <= length buf)%nat -> snd (recv decode buf d) = decode d.
Check C16_history_independent : forall (A : Type) (decode : list N -> option A) ds buf,
  Forall (fun d => (length d <= length buf)%nat) ds -> run decode buf ds = map decode ds.
Check C16_truncated_rejected : forall (A : Type) (decode : list N -> option A) buf e k,
  (forall b j, decode b <> None -> (j < length b)%nat -> decode (firstn j b) = None) ->
  (length e <= length buf)%nat -> decode e <> None -> (k < length e)%nat ->
  snd (recv decode buf (firstn k e)) = None.

Print Assumptions C16_own_bytes_only.
Print Assumptions C16_history_independent.
Print Assumptions C16_buffer_size_kept.
Print Assumptions C16_truncated_rejected.
