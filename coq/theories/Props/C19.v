(* C19 — suspend really suspends (silence and no timer faults, both machines).
   Pinned statements only. "After resume the transfer completes as C02" is not claimed here. *)
From CFDP Require Import Base.Prelude Model.Segments Model.Timer Model.TxTypes Model.Recv Model.Send
  Proofs.TimerP Proofs.RecvInv Proofs.SendP Proofs.NoSpinP Proofs.ResumeP.

(* Receiver: in a suspended state the loop's send arm and timeout arm are disabled
   (has_pdu_to_send = false, until_timeout = MAX) for any suspension length, and whatever
   operation is executed - any received PDU, a send opportunity, a timer wake-up, any user
   request - emits no PDU and declares no timer-limit fault. *)
Theorem C19_receiver_silent : forall FS fs_write_file fs_exec resp_fail not_performed cksum resp_len req_len
  now o (s : rstate FS), suspended s = true ->
  has_pdu_to_send s = false /\ until_timeout now s = None /\
  Forall quiet (r_out (fst (rstep FS fs_write_file fs_exec resp_fail not_performed cksum resp_len req_len now o s))).
Proof. exact suspended_silent. Qed.

(* Sender: likewise; it emits no PDU and no fault at all while suspended. *)
Theorem C19_sender_silent : forall cksum resp_len req_len now o s, ssuspended s = true ->
  s_has_pdu_to_send s = false /\ s_until_timeout now s = None /\
  Forall squiet (s_out (fst (sstep cksum resp_len req_len now o s))).
Proof. exact s_suspended_silent. Qed.

(* time spent suspended is never counted: a paused timer does not move (C17_paused_frozen),
   and resume re-arms the timers from "now" *)
Theorem C19_paused_timers_do_not_count : forall now c, c_paused c = true ->
  fst (c_limit_reached now c) = c /\ fst (c_timeout_occurred now c) = c /\
  snd (c_timeout_occurred now c) = c_occurred c.
Proof. exact paused_frozen. Qed.

(* a resumed send transaction starts both timers afresh: no expiration carried over, next deadline a
   full period away - whatever was counted before the suspension and however long it lasted *)
Theorem C19_sender_resume_fresh : forall now s, ST s -> (s_phase s = SendEof \/ s_phase s = SCancelled) ->
  let s' := s_resume now s in
  c_count (t_inact (s_timer s')) = 0 /\ c_count (t_ack (s_timer s')) = 0 /\
  s_until_timeout now s' = Some (N.min (c_timeout (t_ack (s_timer s))) (c_timeout (t_inact (s_timer s)))).
Proof. exact sender_resume_fresh. Qed.

(* a resumed receive transaction picks up where it left: Active again; nothing already received is
   forgotten (segments, metadata, staged file, file size, progress, phase, filestore); the
   inactivity timer starts afresh; in the data phase (acknowledged; immediate procedure or EOF
   received) the request queue is rebuilt as the complete list of what is missing now, the NAK
   timer starts afresh and the send arm is enabled whenever something is missing; in the later
   phases the ACK timer (Finished retransmission) starts afresh and the Finished PDU is kept *)
Theorem C19_receiver_resume_picks_up : forall FS now (s : rstate FS),
  let s' := resume now s in
  r_state s' = TActive /\
  r_segs s' = r_segs s /\ r_meta s' = r_meta s /\ r_staged s' = r_staged s /\ r_fsize s' = r_fsize s /\
  r_recvd s' = r_recvd s /\ r_phase s' = r_phase s /\ r_fs s' = r_fs s /\
  c_count (t_inact (r_timer s')) = 0 /\ c_paused (t_inact (r_timer s')) = false /\
  match r_phase s with
  | RecvData =>
      if match cfg_mode (r_cfg s) with Acked => true | Unacked => false end
         && (is_immediate (r_nakproc s) || eof_received s)
      then r_naks s' = get_all_naks s /\ c_count (t_nak (r_timer s')) = 0 /\ c_paused (t_nak (r_timer s')) = false /\
           (r_naks s' <> [] -> has_pdu_to_send s' = true)
      else r_naks s' = r_naks s
  | _ => c_count (t_ack (r_timer s')) = 0 /\ c_paused (t_ack (r_timer s')) = false /\ r_fin s' = r_fin s
  end.
Proof. exact resume_picks_up. Qed.

Example C19_nonvacuous :
  let cfg := mkConfig Acked false false 16 3 10000 3000 4000 [] 1 2 7 1 1 in
  let s := suspend 5 (r_new 0 cfg (Deferred 0) tt) in
  suspended s = true /\ until_timeout 999999 s = None.
Proof. vm_compute. auto. Qed.

Print Assumptions C19_receiver_silent.
Print Assumptions C19_sender_silent.
Print Assumptions C19_paused_timers_do_not_count.
Print Assumptions C19_sender_resume_fresh.
Print Assumptions C19_receiver_resume_picks_up.
