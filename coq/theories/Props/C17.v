(* C17 — limit faults fire after exactly the configured expirations; the configured handler runs.
   Pinned statements only. *)
From CFDP Require Import Base.Prelude Model.Segments Model.Timer Model.TxTypes Model.Recv Model.Send
  Proofs.TimerP Proofs.FaultP Proofs.InactP.

(* A timer (re)armed at t0 with its count cleared reaches its limit exactly at
   t0 + max_count * timeout: never earlier, always from then on. *)
Theorem C17_limit_after_reset : forall t0 now c, 0 < c_timeout c -> 0 < c_max c -> t0 <= now ->
  snd (c_limit_reached now (c_reset t0 c)) = (t0 + c_max c * c_timeout c <=? now).
Proof. exact limit_after_reset. Qed.

(* restart keeps the expirations already counted: (max - count) further periods are needed *)
Theorem C17_limit_after_restart : forall t0 now c, cwf c -> c_paused c = true -> c_count c < c_max c -> t0 <= now ->
  snd (c_limit_reached now (c_restart t0 c)) = (t0 + (c_max c - c_count c) * c_timeout c <=? now).
Proof. exact limit_after_restart. Qed.

(* the number of expirations counted at any instant (one per elapsed timeout, capped) *)
Theorem C17_count : forall t0 now c, 0 < c_timeout c -> t0 <= now ->
  c_count (c_update now (c_reset t0 c)) = N.min (c_max c) ((now - t0) / c_timeout c).
Proof. exact count_after_reset. Qed.

(* a paused timer never expires, however long it stays paused *)
Theorem C17_paused_frozen : forall now c, c_paused c = true ->
  fst (c_limit_reached now c) = c /\ fst (c_timeout_occurred now c) = c /\
  snd (c_timeout_occurred now c) = c_occurred c.
Proof. exact paused_frozen. Qed.

(* when a fault is declared the action taken is the configured one (cancel when none is):
   ignore continues with phase, state and timers untouched; suspend suspends; abandon
   terminates at once; cancel enters the Cancelled phase *)
Theorem C17_receiver_dispatch : forall FS now c (s : rstate FS),
  let '(s', cont) := handle_fault now c s in
  In (OInd (IFault c (r_recvd s))) (r_out s') /\ r_cond s' = c /\
  match handler (r_cfg s) c with
  | AIgnore => cont = true /\ r_phase s' = r_phase s /\ r_state s' = r_state s /\ r_timer s' = r_timer s
  | ACancel => cont = false /\ r_phase s' = RCancelled
  | ASuspend => cont = false /\ r_state s' = TSuspended /\ r_phase s' = r_phase s
  | AAbandon => cont = false /\ r_state s' = TTerminated /\ r_status s' = STerminated /\
                In (OInd (IAbandon c (r_recvd s))) (r_out s')
  end.
Proof. exact r_dispatch. Qed.

Theorem C17_sender_dispatch : forall cksum now c (s : sstate),
  let s' := s_handle_fault cksum now c s in
  In (OInd (IFault c (s_sent s))) (s_out s') /\ s_cond s' = c /\
  match handler (s_cfg s) c with
  | AIgnore => s_phase s' = s_phase s /\ s_state s' = s_state s /\ s_timer s' = s_timer s
  | ACancel => s_phase s' = SCancelled /\ exists e, s_eof s' = Some (e, true) /\ eof_cond e = c
  | ASuspend => s_state s' = TSuspended /\ s_phase s' = s_phase s
  | AAbandon => s_state s' = TTerminated /\ s_status s' = STerminated /\
                In (OInd (IAbandon c (s_sent s))) (s_out s')
  end.
Proof. exact s_dispatch. Qed.

(* no limit fault before the limit *)
Theorem C17_no_inactivity_fault_before_limit : forall FS now (s : rstate FS),
  snd (c_limit_reached now (t_inact (r_timer s))) = false ->
  r_out (fst (ht_inactivity now s)) = r_out s /\ snd (ht_inactivity now s) = true.
Proof. exact r_no_inactivity_fault_before_limit. Qed.

Theorem C17_no_ack_fault_before_limit : forall FS now (s : rstate FS), r_phase s <> RecvData ->
  snd (c_limit_reached now (t_ack (r_timer s))) = false -> r_out (ht_phase now s) = r_out s.
Proof. exact r_no_ack_fault_before_limit. Qed.

(* the retransmission schedule: an expiration of the ACK timer that is not the limit declares
   nothing and marks the pending EOF (sender) / Finished (receiver) PDU for retransmission; the
   send arm then emits exactly that one PDU and clears the mark (a second send emits nothing);
   without an expiration nothing is marked. With C17_count (one expiration counted per elapsed
   period) this is "exactly one retransmission per earlier expiration". *)
Theorem C17_sender_expiry_marks_eof : forall cksum now (s : sstate),
  let ca := c_update now (t_ack (s_timer s)) in
  c_occurred ca = true -> c_count ca <> c_max ca ->
  ht_ack_eof cksum now s = set_eof_flag true (supd_ack (fun _ => ca) s).
Proof. exact s_ack_expiry_marks_eof. Qed.
Theorem C17_sender_no_expiry_quiet : forall cksum now (s : sstate),
  c_occurred (c_update now (t_ack (s_timer s))) = false ->
  ht_ack_eof cksum now s = supd_ack (fun _ => c_update now (t_ack (s_timer s))) s.
Proof. exact s_no_ack_expiry_quiet. Qed.
Theorem C17_sender_one_eof_per_mark : forall resp_len req_len now (s : sstate) e,
  s_eof s = Some (e, true) ->
  let s' := send_eof resp_len req_len now s in
  (exists p, s_out s' = OPdu p :: s_out s /\ o_payload p = PEof e) /\ s_eof s' = Some (e, false) /\
  t_ack (s_timer s') = c_restart now (t_ack (s_timer s)) /\ send_eof resp_len req_len now s' = s'.
Proof. exact s_send_eof_once. Qed.
Theorem C17_receiver_expiry_marks_finished : forall FS now (s : rstate FS),
  r_phase s <> RecvData ->
  let c := c_update now (t_ack (r_timer s)) in
  c_count c <> c_max c -> c_occurred c = true ->
  ht_ackphase now s = upd_ack (c_restart now) (set_fin_flag true (upd_ack (fun _ => c) s)).
Proof. exact r_ack_expiry_marks_finished. Qed.
Theorem C17_receiver_one_finished_per_mark : forall FS resp_len req_len now (s : rstate FS) f,
  r_fin s = Some (f, true) ->
  let s' := send_finished resp_len req_len now s in
  (exists p, r_out s' = OPdu p :: r_out s /\ o_payload p = PFinished f) /\ r_fin s' = Some (f, false).
Proof. exact r_send_finished_once. Qed.

(* the receiver's NAK rounds: progress since the previous round (received_file_size moved) resets
   the NAK count and cannot fault; without progress the count is kept and the round repeats with one
   NAK PDU until the limit, where - and only where - NakLimitReached is declared *)
Theorem C17_nak_round_progress_resets : forall FS resp_len req_len now (s : rstate FS),
  r_nak_recvd s <> r_recvd s ->
  let s' := send_naks resp_len req_len now s in
  t_nak (r_timer s') = c_reset now (t_nak (r_timer s)) /\ r_nak_recvd s' = r_recvd s /\
  r_cond s' = r_cond s /\ r_phase s' = r_phase s /\ r_state s' = r_state s /\
  exists p, r_out s' = OPdu p :: r_out s /\ (exists n, o_payload p = PNakP n).
Proof. exact r_nak_round_progress. Qed.
Theorem C17_nak_round_repeats_below_limit : forall FS resp_len req_len now (s : rstate FS),
  r_nak_recvd s = r_recvd s -> snd (c_limit_reached now (t_nak (r_timer s))) = false ->
  let s' := send_naks resp_len req_len now s in
  t_nak (r_timer s') = c_restart now (c_update now (t_nak (r_timer s))) /\
  r_cond s' = r_cond s /\ r_phase s' = r_phase s /\ r_state s' = r_state s /\
  exists p, r_out s' = OPdu p :: r_out s /\ (exists n, o_payload p = PNakP n).
Proof. exact r_nak_round_repeat. Qed.
(* sender: the ACK(EOF) clears and stops the ACK timer *)
Theorem C17_sender_ack_clears_count : forall now a (s : sstate),
  cfg_mode (s_cfg s) = Acked -> ack_dir a = DirEoF ->
  let s' := fst (s_process_pdu now (PAck a) s) in
  c_count (t_ack (s_timer s')) = 0 /\ c_paused (t_ack (s_timer s')) = true.
Proof. exact s_ack_eof_clears. Qed.

(* sender: any PDU received while it waits after its EOF (not suspended) clears the inactivity
   expirations counted so far *)
Theorem C17_sender_pdu_clears_inactivity : forall now p (s : sstate),
  s_phase s = SendEof -> s_state s <> TSuspended ->
  c_count (t_inact (s_timer (fst (s_process_pdu now p s)))) = 0.
Proof. exact sender_pdu_clears_inactivity. Qed.

(* non-vacuity: 3 s timeout, limit 2, armed at t = 1 s: the limit is reached at exactly 7 s *)
Example C17_nonvacuous :
  let c := c_reset 1000 (c_new 0 3000 2) in
  snd (c_limit_reached 6999 c) = false /\ snd (c_limit_reached 7000 c) = true /\
  c_count (c_update 4000 c) = 1 /\ c_until 3500 c = 500.
Proof. vm_compute. auto. Qed.

Print Assumptions C17_limit_after_reset.
Print Assumptions C17_limit_after_restart.
Print Assumptions C17_count.
Print Assumptions C17_paused_frozen.
Print Assumptions C17_receiver_dispatch.
Print Assumptions C17_sender_dispatch.
Print Assumptions C17_no_inactivity_fault_before_limit.
Print Assumptions C17_no_ack_fault_before_limit.
Print Assumptions C17_sender_expiry_marks_eof.
Print Assumptions C17_sender_no_expiry_quiet.
Print Assumptions C17_sender_one_eof_per_mark.
Print Assumptions C17_receiver_expiry_marks_finished.
Print Assumptions C17_receiver_one_finished_per_mark.
Print Assumptions C17_nak_round_progress_resets.
Print Assumptions C17_nak_round_repeats_below_limit.
Print Assumptions C17_sender_ack_clears_count.
Print Assumptions C17_sender_pdu_clears_inactivity.
