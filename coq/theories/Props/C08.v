(* C08 — receiver NAKs are well-formed and ask for exactly what is missing.
   Pinned statements only (acknowledged-mode receive-transaction model). *)
From CFDP Require Import Base.Prelude Model.Segments Model.Timer Model.TxTypes Model.Recv
  Proofs.SegmentsP Proofs.RecvInv Proofs.ImmediateP.

(* The queue invariant N8 (every queued request is a non-empty range or the 0-0 marker; the
   marker only while the metadata is missing; segment list well-formed) holds initially and is
   kept by every operation; NAK PDUs are built from a prefix of this queue. *)
Theorem C08_queue_initial : forall FS now cfg np (fs : FS), N8 FS (r_new now cfg np fs).
Proof. intros. unfold N8, r_new, marker_free. cbn. splits; auto. Qed.

Theorem C08_queue_invariant : forall FS fs_write_file fs_exec resp_fail not_performed cksum resp_len req_len
  now o (s : rstate FS), cfg_mode (r_cfg s) = Acked -> N8 FS s ->
  N8 FS (fst (rstep FS fs_write_file fs_exec resp_fail not_performed cksum resp_len req_len now o s)).
Proof. exact N8_rstep. Qed.

(* every request of a NAK PDU lies inside the announced scope (scope = [min start, max end]) *)
Theorem C08_requests_inside_scope : forall reqs d0 d1 r, In r reqs ->
  min_list (map fst reqs) d0 <= fst r /\ snd r <= max_list (map snd reqs) d1.
Proof. exact nak_scope_contains. Qed.

(* the PDU fits the configured maximum size: with n <= max_nak_num requests the data field
   (directive code + scope + n requests) is at most segment size + 1 octets *)
Theorem C08_nak_fits : forall cfg n, 2 * fss cfg <= cfg_seg cfg -> n <= max_nak_num cfg ->
  1 + 2 * fss cfg + n * (2 * fss cfg) <= cfg_seg cfg + 1.
Proof. exact nak_fits. Qed.

(* exactness: once the EOF has been received, the list the receiver computes (sent at once with
   zero delay, at every NAK-timer expiry, on resume, in answer to a prompt) is the metadata
   marker if the metadata is missing, followed by ranges that cover precisely the bytes of
   [0, file size) not yet received - no missing byte left out, a missing first segment
   included - each a non-empty range inside the file *)
Theorem C08_exactly_what_is_missing : forall FS (s : rstate FS) fsz, Inv (r_segs s) -> r_fsize s = Some fsz ->
  get_all_naks s = (if is_some (r_meta s) then [] else [(0, 0)]) ++ gaps (r_segs s) 0 fsz /\
  (forall x, covered (gaps (r_segs s) 0 fsz) x <-> (x < fsz /\ ~ covered (r_segs s) x)) /\
  (forall a b, In (a, b) (gaps (r_segs s) 0 fsz) -> a < b /\ b <= fsz).
Proof. exact get_all_naks_exact. Qed.

(* deferred procedure: as long as neither the EOF nor a prompt has been received, every
   operation keeps the queue (and the delay timers) empty and no NAK PDU is emitted *)
Theorem C08_deferred_no_unsolicited_nak : forall FS fs_write_file fs_exec resp_fail not_performed cksum resp_len req_len
  now o (s : rstate FS), DF FS s ->
  (forall q, o <> RPdu (PPrompt q)) -> (forall e, o <> RPdu (PEof e)) ->
  let s' := fst (rstep FS fs_write_file fs_exec resp_fail not_performed cksum resp_len req_len now o s) in
  DF FS s' /\ Forall no_nak (r_out s').
Proof. exact DF_rstep. Qed.

Example C08_nonvacuous :
  let cfg := mkConfig Acked false false 16 3 10000 3000 4000 [] 1 2 7 1 1 in
  let s0 := r_new 0 cfg (Deferred 0) tt in
  DF unit s0 /\
  get_all_naks (set_r_fsize (Some 40) (store_file_data 10 [1; 2; 3] s0)) = [(0, 0); (0, 10); (13, 40)].
Proof. split; [unfold DF, nak_idle; cbn; auto 10|vm_compute; reflexivity]. Qed.

(* the immediate procedure: file data that starts beyond the end of what was held (before the EOF,
   NAK timer not expired at that instant) reveals the gap [previous end, offset): with a zero delay
   exactly that request is appended to the queue the next send opportunity draws from; with a
   non-zero delay it is put on the delayed list under a timer of that delay, and the queue is left
   alone (it is requested when the delay has elapsed if it persists: handle_timeout, ht_delayed) *)
Theorem C08_immediate_gap_requested : forall FS fs_write_file fs_exec resp_fail not_performed cksum
  now offset data delay (s : rstate FS),
  r_phase s = RecvData -> r_nakproc s = Immediate delay -> eof_received s = false ->
  snd (c_timeout_occurred now (t_nak (r_timer s))) = false ->
  let prev_end := match seg_end (r_segs s) with Some e => e | None => 0 end in
  prev_end < offset ->
  let s' := pdu_filedata_acked FS fs_write_file fs_exec resp_fail not_performed cksum now offset data s in
  if delay =? 0
  then r_naks s' = r_naks s ++ [(prev_end, offset)] /\ r_delayed s' = r_delayed s
  else r_naks s' = r_naks s /\ r_delayed s' = r_delayed s ++ [(new_delay_counter now delay, prev_end, offset)].
Proof. exact immediate_gap_requested. Qed.

Theorem C08_immediate_expired_requests_all : forall FS fs_write_file fs_exec resp_fail not_performed cksum
  now offset data delay (s : rstate FS),
  r_phase s = RecvData -> r_nakproc s = Immediate delay -> eof_received s = false ->
  snd (c_timeout_occurred now (t_nak (r_timer s))) = true ->
  r_naks (pdu_filedata_acked FS fs_write_file fs_exec resp_fail not_performed cksum now offset data s) =
  get_all_naks (store_file_data offset data s).
Proof. exact immediate_expired_requests_all. Qed.

(* ... "or after the delay if it persists": when the delay of the first delayed entry [a, b) has
   elapsed, exactly what is still missing inside [a, min b filesize) is queued (nothing if the gap was
   filled meanwhile), plus the metadata marker while the metadata is missing; the entry is consumed *)
Theorem C08_delayed_gap_requested_if_it_persists : forall FS now c a b rest (s : rstate FS),
  r_delayed s = (c, a, b) :: rest -> snd (c_timeout_occurred now c) = true ->
  match rest with [] => True | (c2, _, _) :: _ => snd (c_timeout_occurred now c2) = false end ->
  let clip e := match r_fsize s with Some f => N.min e f | None => e end in
  let s' := ht_delayed now s in
  r_naks s' = (r_naks s ++ (if is_some (r_meta s) then [] else [(0, 0)])) ++ (gaps (r_segs s) a (clip b) ++ []) /\
  length (r_delayed s') = length rest.
Proof. exact delayed_gap_requested_if_it_persists. Qed.

Print Assumptions C08_queue_initial.
Print Assumptions C08_queue_invariant.
Print Assumptions C08_requests_inside_scope.
Print Assumptions C08_nak_fits.
Print Assumptions C08_exactly_what_is_missing.
Print Assumptions C08_deferred_no_unsolicited_nak.
Print Assumptions C08_immediate_gap_requested.
Print Assumptions C08_immediate_expired_requests_all.
Print Assumptions C08_delayed_gap_requested_if_it_persists.
