(* C06 — decoding arbitrary bytes never panics, is bounded, and accepts only canonical values.
   Pinned statements only.  A byte string is a [list N] with every element < 256 ([is_bytes]).
   The decoders are total Gallina functions (structural recursion on the buffer / on fuel equal
   to the buffer length), so "never loops" is part of their definition. *)
From CFDP Require Import Base.Prelude Model.PduUser Model.CodecBase Model.Codec Model.CodecUser Model.Crc
  Proofs.CodecBaseP Proofs.CodecP Proofs.CodecUserP.

(* no input makes PDU::decode hit an overflow check, an index check or an unwrap *)
Theorem decode_total : forall b, is_bytes b -> pdu_decode b <> Panic.
Proof. exact decode_total_holds. Qed.

(* every buffer the decoder allocates is requested through [read_exact]; the instrumented
   primitive answers Panic to any request above 65535 bytes, which [decode_total] excludes;
   and the slice handed to the payload decoders (read_to_end copies of it) is the data field *)
Theorem decode_reads_bounded :
  (forall n b, 65535 < n -> read_exact n b = Panic) /\
  (forall b, is_bytes b -> pdu_decode b <> Panic) /\
  (forall b h r data r2, is_bytes b -> header_decode b = Ok (h, r) ->
     read_exact (h_len h) r = Ok (data, r2) -> blen data <= 65535).
Proof. splits; [exact read_exact_oversize | exact decode_total_holds | exact payload_buffer_bounded]. Qed.

(* what is accepted is well-formed once its length field is recomputed, and re-encoding it
   decodes to itself *)
Theorem decode_canonical : forall b p,
  is_bytes b -> pdu_decode b = Ok p ->
  wf_pdu (fix_len p) /\ pdu_decode (pdu_encode (fix_len p)) = Ok (fix_len p).
Proof. exact decode_canonical_holds. Qed.

(* "never loops": the three `while !remaining.is_empty()` loops (metadata options, NAK segment
   requests, Finished TLVs) are modelled with fuel = buffer length; any larger fuel gives the
   same result, i.e. running out of fuel is unreachable: every iteration consumes >= 1 byte *)
Theorem loops_fuel_independent :
  (forall fuel b, is_bytes b -> (length b <= fuel)%nat ->
     repeat_dec fuel tlv_decode b = repeat_until_empty tlv_decode b) /\
  (forall f fuel b, is_bytes b -> (length b <= fuel)%nat ->
     repeat_dec fuel (segment_decode f) b = repeat_until_empty (segment_decode f) b) /\
  (forall c fuel b, is_bytes b -> (length b <= fuel)%nat ->
     finished_loop fuel c b = finished_loop (length b) c b).
Proof. exact loops_fuel_independent_holds. Qed.

(* a PDU accepted with the CRC flag set: the consumed octets end in the CRC-16 of what precedes
   them (Model/Crc.v crc_frame_ok); this is the hypothesis the CRC theorems of C15 need *)
Theorem accepted_crc_frame : forall b p,
  is_bytes b -> pdu_decode b = Ok p -> h_crc (pdu_hdr p) = CRCFlag_Present ->
  exists frame rest, b = frame ++ rest /\ Crc.crc_frame_ok frame = true /\
    blen frame = header_encoded_len (pdu_hdr p) + h_len (pdu_hdr p) + 2.
Proof. exact pdu_decode_crc_frame. Qed.

(* the public per-type decoders *)
Theorem per_type_decode_total : forall b, is_bytes b ->
  header_decode b <> Panic /\
  (forall f, operations_decode f b <> Panic) /\
  (forall s f, file_data_decode s f b <> Panic) /\
  varid_decode b <> Panic /\ tlv_decode b <> Panic /\
  fs_request_decode b <> Panic /\ fs_response_decode b <> Panic.
Proof.
  intros b Hb. splits; auto using header_nopanic, operations_nopanic, file_data_nopanic,
    varid_decode_nopanic, tlv_nopanic, fs_request_nopanic, fs_response_nopanic.
Qed.

Theorem uo_decode_total : forall b, is_bytes b -> uo_decode b <> Panic.
Proof. exact uo_nopanic_holds. Qed.

Theorem uo_decode_canonical : forall b u r,
  is_bytes b -> uo_decode b = Ok (u, r) ->
  wf_uo u /\ forall r', uo_decode (uo_encode u ++ r') = Ok (u, r').
Proof. exact uo_canonical_holds. Qed.

Theorem report_decode_total : forall b, is_bytes b -> report_decode b <> Panic.
Proof. exact report_nopanic_holds. Qed.

Theorem report_decode_canonical : forall b p r,
  is_bytes b -> report_decode b = Ok (p, r) ->
  wf_report p /\ forall r', report_decode (report_encode p ++ r') = Ok (p, r').
Proof.
  intros b p r Hb H. destruct (report_ok_holds _ _ _ Hb H) as (Hw & _ & _).
  split; [exact Hw | intros r'; apply report_rt_holds; exact Hw].
Qed.

(* non-vacuity: accepted and rejected inputs exist; the former panics of the pinned code are errors *)
Example C06_nonvacuous :
  is_bytes [34; 0; 7; 0; 1; 2; 3; 12; 0; 0; 0; 9; 3; 155] /\
  pdu_decode [34; 0; 7; 0; 1; 2; 3; 12; 0; 0; 0; 9; 3; 155] = Ok (witness_pdu CRCFlag_Present) /\
  pdu_decode [34; 0; 1; 0; 0; 0; 0] = Err /\
  varid_decode [255; 0] = Err.
Proof.
  splits; try (vm_compute; reflexivity).
  repeat (apply is_bytes_cons; split; [reflexivity|]). constructor.
Qed.

Check decode_total : forall b, is_bytes b -> pdu_decode b <> Panic.
Check decode_canonical : forall b p, is_bytes b -> pdu_decode b = Ok p ->
  wf_pdu (fix_len p) /\ pdu_decode (pdu_encode (fix_len p)) = Ok (fix_len p).
Check uo_decode_total : forall b, is_bytes b -> uo_decode b <> Panic.
Check report_decode_total : forall b, is_bytes b -> report_decode b <> Panic.

Print Assumptions decode_total.
Print Assumptions decode_reads_bounded.
Print Assumptions decode_canonical.
Print Assumptions loops_fuel_independent.
Print Assumptions accepted_crc_frame.
Print Assumptions per_type_decode_total.
Print Assumptions uo_decode_total.
Print Assumptions uo_decode_canonical.
Print Assumptions report_decode_total.
Print Assumptions report_decode_canonical.
