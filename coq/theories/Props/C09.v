(* C09 — the receiver's account of which bytes it holds is exact.
   This file contains only the pinned statements. *)
From CFDP Require Import Base.Prelude Model.Segments Proofs.SegmentsP.

(* every reachable list (any sequence of segments, any length, any offsets):
   the structural invariant holds, the running sum of what merge returned is the
   number of bytes held, and the bytes held are exactly the union of the segments *)
Theorem C09_union : forall ops : list seg,
  Inv (fst (run ops)) /\
  snd (run ops) = total (fst (run ops)) /\
  (forall x, covered (fst (run ops)) x <-> covered_by_ops ops x).
Proof. exact run_ok. Qed.

(* one step, full functional statement (what must not change is included:
   covered' = covered ∪ [a,b), count = exactly the new bytes) *)
Theorem C09_merge : forall a b v v' n, a < b -> Inv v -> ins a b v = (v', n) ->
  Inv v' /\ (forall x, covered v' x <-> covered v x \/ a <= x < b) /\ total v' = total v + n.
Proof. intros a b v v' n Hab Hi H. destruct (ins_ok a b v Hab Hi v' n H) as (H1 & H2 & H3 & _). auto. Qed.

(* [total] is the number of distinct positions held (counted one by one) *)
Theorem C09_total_is_cardinality : forall v n, Inv v ->
  (forall x, covered v x -> x < n) -> count_below v n = total v.
Proof. intros v n Hi Hb. rewrite count_below_total by assumption. apply total_below_all; assumption. Qed.

Theorem C09_complete : forall v n, Inv v ->
  (is_complete v n = true <-> forall x, x < n -> covered v x).
Proof. exact complete_iff. Qed.

Theorem C09_empty_file_complete : forall v, is_complete v 0 = true.
Proof. intros v. reflexivity. Qed.

(* gaps: non-empty, strictly increasing, separated (hence maximal) ranges inside
   the window that cover exactly the uncovered positions of the window *)
Theorem C09_gaps : forall v start e, Inv v ->
  Inv (gaps v start e) /\
  (forall s t, In (s, t) (gaps v start e) -> start <= s /\ t <= e) /\
  (forall x, covered (gaps v start e) x <-> (start <= x < e /\ ~ covered v x)).
Proof. exact gaps_spec. Qed.

(* non-vacuity: a reachable non-trivial state *)
Example C09_nonvacuous :
  run [(10, 20); (0, 5); (30, 40); (4, 32)] = ([(0, 40)], 40) /\
  gaps (fst (run [(10, 20); (30, 40)])) 5 35 = [(5, 10); (20, 30)].
Proof. vm_compute. auto. Qed.

Check C09_union : forall ops : list seg,
  Inv (fst (run ops)) /\ snd (run ops) = total (fst (run ops)) /\
  (forall x, covered (fst (run ops)) x <-> covered_by_ops ops x).
Check C09_complete : forall v n, Inv v ->
  (is_complete v n = true <-> forall x, x < n -> covered v x).
Check C09_gaps : forall v start e, Inv v ->
  Inv (gaps v start e) /\
  (forall s t, In (s, t) (gaps v start e) -> start <= s /\ t <= e) /\
  (forall x, covered (gaps v start e) x <-> (start <= x < e /\ ~ covered v x)).

Print Assumptions C09_union.
Print Assumptions C09_merge.
Print Assumptions C09_total_is_cardinality.
Print Assumptions C09_complete.
Print Assumptions C09_empty_file_complete.
Print Assumptions C09_gaps.
