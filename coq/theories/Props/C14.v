(* C14 — the file checksum is the CCSDS modular checksum, however the data is read.
   This file contains only the pinned statements. *)
From CFDP Require Import Base.Prelude Model.Checksum Proofs.ChecksumP.

(* every chunking of every content (any length, including 0 and lengths that are
   not a multiple of 4): the value computed buffer by buffer is the 32-bit
   wrapping sum of the big-endian words of the zero-padded content *)
Theorem C14_all_chunkings : forall chunks : list (list N),
  Forall (fun c => c <> []) chunks -> impl_chunks chunks = spec (concat chunks).
Proof. exact impl_chunks_spec. Qed.

(* without the side condition: an empty buffer is end of file, what follows is not read *)
Theorem C14_until_eof : forall chunks : list (list N),
  impl_chunks chunks = spec (concat (until_empty chunks)).
Proof. exact impl_chunks_any. Qed.

(* the public entry point: Null is 0, Modular is the definition *)
Theorem C14_null : forall chunks, file_checksum 15 chunks = 0.
Proof. exact checksum_null_zero. Qed.

Theorem C14_modular : forall chunks, Forall (fun c => c <> []) chunks ->
  file_checksum 0 chunks = spec (concat chunks).
Proof. exact checksum_modular. Qed.

(* two contents of equal length that differ in exactly one byte have different checksums *)
Theorem C14_single_byte_change : forall pre post b b',
  b < 256 -> b' < 256 -> b <> b' ->
  spec (pre ++ b :: post) <> spec (pre ++ b' :: post).
Proof. exact spec_single_byte. Qed.

(* sender and receiver (two readers chunking differently) agree on identical data
   and disagree after a change of a single byte *)
Theorem C14_agree_iff_same : forall c1 c2,
  Forall (fun c => c <> []) c1 -> Forall (fun c => c <> []) c2 ->
  (concat c1 = concat c2 -> impl_chunks c1 = impl_chunks c2) /\
  (forall pre post b b', concat c1 = pre ++ b :: post -> concat c2 = pre ++ b' :: post ->
     b < 256 -> b' < 256 -> b <> b' -> impl_chunks c1 <> impl_chunks c2).
Proof.
  intros c1 c2 H1 H2. split.
  - exact (impl_chunks_same_data c1 c2 H1 H2).
  - intros pre post b b'. exact (impl_chunks_one_byte c1 c2 pre post b b' H1 H2).
Qed.

(* the result is a u32 *)
Theorem C14_range : forall data, spec data < 4294967296.
Proof. exact spec_lt. Qed.

(* non-vacuity: the CCSDS example vector of the repository's own tests (10 bytes,
   not a multiple of 4) read as 3 + 5 + 2 bytes; the empty file; a wrap-around *)
Example C14_nonvacuous :
  impl_chunks [[138; 27; 55]; [68; 120; 145; 171; 3]; [70; 18]] = 1220469319 (* 0x48BEE247 *) /\
  spec [138; 27; 55; 68; 120; 145; 171; 3; 70; 18] = 1220469319 /\
  spec [] = 0 /\ impl_chunks [] = 0 /\
  spec [255; 255; 255; 255; 0; 0; 0; 2] = 1 /\
  spec [1; 2; 3; 4; 5] <> spec [1; 2; 3; 4; 6].
Proof. vm_compute. repeat split; discriminate. Qed.

Check C14_all_chunkings : forall chunks : list (list N),
  Forall (fun c => c <> []) chunks -> impl_chunks chunks = spec (concat chunks).
Check C14_null : forall chunks, file_checksum 15 chunks = 0.
Check C14_single_byte_change : forall pre post b b',
  b < 256 -> b' < 256 -> b <> b' ->
  spec (pre ++ b :: post) <> spec (pre ++ b' :: post).
Check C14_agree_iff_same : forall c1 c2,
  Forall (fun c => c <> []) c1 -> Forall (fun c => c <> []) c2 ->
  (concat c1 = concat c2 -> impl_chunks c1 = impl_chunks c2) /\
  (forall pre post b b', concat c1 = pre ++ b :: post -> concat c2 = pre ++ b' :: post ->
     b < 256 -> b' < 256 -> b <> b' -> impl_chunks c1 <> impl_chunks c2).
(* the definition itself, pinned: zero-pad to a multiple of 4, big-endian words, wrapping sum *)
Check (eq_refl : spec = fun data => fold_left (fun a b => (a + b) mod 4294967296)
                                       (be_words (data ++ repeat 0 ((4 - length data mod 4) mod 4)%nat)) 0).

Print Assumptions C14_all_chunkings.
Print Assumptions C14_until_eof.
Print Assumptions C14_null.
Print Assumptions C14_modular.
Print Assumptions C14_single_byte_change.
Print Assumptions C14_agree_iff_same.
Print Assumptions C14_range.
