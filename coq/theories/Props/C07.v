(* C07 — the sender transmits exactly the source file. Pinned statements only. *)
From CFDP Require Import Base.Prelude Model.Timer Model.TxTypes Model.Recv Model.Send Model.TxInst
  Proofs.SendP Proofs.FirstPassP Proofs.HeaderP Proofs.TileP.

(* The invariant S7 (metadata size = file length; cursor inside the file; every queued NAK
   request is the 0-0 marker or a non-empty range inside the file no longer than a segment;
   every file data PDU in the step's output carries exactly the file's bytes at its offset, is
   non-empty, at most one segment long and lies inside the file) holds initially and is kept by
   every operation - send opportunities, NAKs of any shape (overlapping, unsorted, empty,
   inverted, beyond the end of the file, longer than a segment), ACKs, Finished, timeouts,
   user requests - in any order. *)
Theorem C07_initial : forall now cfg m file,
  md_size m = N.of_nat (length file) -> 0 < cfg_seg cfg -> S7 (s_new now cfg m file).
Proof. exact S7_init. Qed.

Theorem C07_every_step : forall cksum resp_len req_len now o s,
  S7 s -> S7 (fst (sstep cksum resp_len req_len now o s)).
Proof. exact S7_sstep. Qed.

(* a NAK request is answered with exactly the part of the range inside the file, cut to the
   segment size: every piece is well-formed ... *)
Theorem C07_nak_split_wellformed : forall seg flen r, 0 < seg ->
  Forall (req_ok seg flen) (split_request seg flen r).
Proof. exact split_request_ok. Qed.

(* what S7 says about one emitted PDU, spelled out *)
Theorem C07_file_data_correct : forall s p off d, S7 s -> In (OPdu p) (s_out s) ->
  o_payload p = PFileData off d ->
  d = slice (s_file s) off (N.of_nat (length d)) /\ d <> [] /\
  N.of_nat (length d) <= cfg_seg (s_cfg s) /\ off + N.of_nat (length d) <= N.of_nat (length (s_file s)).
Proof.
  intros s p off d (_ & _ & _ & _ & _ & _ & F) Hin Hp.
  rewrite Forall_forall in F. specialize (F _ Hin). unfold fd_ok in F. rewrite Hp in F. exact F.
Qed.

(* Metadata and EOF state the true size and checksum (by construction of the model:
   the PDUs are built from the stored metadata and the checksum of the file) *)
Theorem C07_eof_truthful : forall cksum fl s e b,
  s_eof (prepare_eof cksum fl s) = Some (e, b) -> s_cksum s = None -> s_is_file_transfer s = true ->
  eof_size e = md_size (s_meta s) /\ eof_ck e = cksum (md_ck (s_meta s)) (s_file s) /\ eof_cond e = s_cond s.
Proof.
  intros cksum fl s e b H Hc Hf. unfold prepare_eof, get_checksum in H. rewrite Hc, Hf in H.
  destruct (md_ck (s_meta s)); cbn in H; inversion H; subst; cbn; auto.
Qed.

(* First pass: over EVERY history (NAKs of any shape interleaved with the first pass, timeouts,
   suspensions, prompts, ...), once the transaction has emitted an EOF PDU saying "no error",
   every byte of the source file has been emitted in some file data PDU (which, by the invariant
   above, carries exactly the file's bytes at its offset): the retransmissions interleaved with
   the first pass do not disturb its cursor, and the EOF is prepared only when the cursor has
   reached the end of the file. [srun ops s h] = (state after [ops], everything emitted before
   its last step). *)
Theorem C07_first_pass_covers : forall cksum resp_len req_len now cfg m file ops,
  md_size m = N.of_nat (length file) -> 0 < cfg_seg cfg -> (md_src m <> [] \/ file = []) ->
  let '(s, h) := srun cksum resp_len req_len ops (s_new now cfg m file) [] in
  let log := s_out s ++ h in
  forall p e, In (OPdu p) log -> o_payload p = PEof e -> eof_cond e = NoError ->
  forall x, x < N.of_nat (length file) ->
  exists q off d, In (OPdu q) log /\ o_payload q = PFileData off d /\ off <= x < off + N.of_nat (length d).
Proof. exact first_pass_covers. Qed.

(* non-vacuity: a history with a NAK interleaved in the first pass that does reach a "no error" EOF *)
Example C07_first_pass_nonvacuous :
  let cfg := mkConfig Acked false false 4 3 10000 3000 4000 [] 1 2 7 1 1 in
  let md := mkMeta [115] [100] 6 CkModular false [] [] in
  let ops := [(0, SSend); (0, SSend); (0, SPdu (PNakP (mkNak 0 6 [(0, 4)]))); (0, SSend); (0, SSend); (0, SSend)] in
  let '(s, h) := srun inst_cksum inst_tlv_len inst_tlv_len ops (s_new 0 cfg md [1; 2; 3; 4; 5; 6]) [] in
  existsb (fun o => match o with OPdu p => match o_payload p with PEof e => cond_eqb (eof_cond e) NoError | _ => false end
                              | _ => false end) (s_out s ++ h) = true.
Proof. vm_compute. reflexivity. Qed.

(* ... and it does so in order, each byte once: while no retransmission is queued, each run of the
   send arm in the SendData phase emits exactly one file data PDU, starting at the cursor (where the
   previous one ended), one segment long or up to the end of the file, and moves the cursor to its
   end; at the end of the file the EOF is made ready *)
Theorem C07_first_pass_in_order : forall cksum resp_len req_len now (s : sstate),
  s_phase s = SendData -> s_naks s = [] -> s_prompt s = None ->
  let data := slice (s_file s) (s_pos s) (cfg_seg (s_cfg s)) in
  let s' := fst (s_send_pdu cksum resp_len req_len now s) in
  (exists p, s_out s' = OPdu p :: s_out s /\ o_payload p = PFileData (s_pos s) data) /\
  (if s_pos s + N.of_nat (length data) =? N.of_nat (length (s_file s))
   then s_phase s' = SendEof /\ (exists e, s_eof s' = Some (e, true))
   else s_phase s' = SendData /\ s_pos s' = s_pos s + N.of_nat (length data) /\ s_naks s' = []).
Proof. exact first_pass_step. Qed.

(* Headers: every PDU a send transaction ever emits is directed towards the file receiver, is
   handed to the transport of the configured destination entity, and announces as its data field
   length the length of its own payload; the configuration (ids, mode, CRC and size flags) is the
   one the transaction was created with. [HD cfg s] = "s_cfg s = cfg and every PDU in s_out s has
   such a header". *)
Theorem C07_headers_initial : forall resp_len req_len now cfg m file,
  HD resp_len req_len cfg (s_new now cfg m file).
Proof. exact HD_init. Qed.
Theorem C07_headers_every_step : forall cksum resp_len req_len cfg now o s,
  HD resp_len req_len cfg s -> HD resp_len req_len cfg (fst (sstep cksum resp_len req_len now o s)).
Proof. exact HD_sstep. Qed.
Check (fun resp_len req_len cfg s (H : HD resp_len req_len cfg s) => H :
  s_cfg s = cfg /\ Forall (fun o => match o with
                                    | OPdu p => o_to_receiver p = true /\ o_dest p = cfg_dst cfg /\
                                                o_len p = payload_len cfg resp_len req_len (o_payload p)
                                    | OInd _ => True end) (s_out s)).

Example C07_nonvacuous :
  let cfg := mkConfig Acked false false 4 3 10000 3000 4000 [] 1 2 7 1 1 in
  let md := mkMeta [115] [100] 6 CkModular false [] [] in
  let s0 := s_new 0 cfg md [1; 2; 3; 4; 5; 6] in
  let s1 := fst (inst_sstep 0 SSend s0) in
  let s2 := fst (inst_sstep 0 SSend s1) in
  let s3 := fst (inst_sstep 0 (SPdu (PNakP (mkNak 0 6 [(5, 100); (3, 3); (4, 2)]))) s2) in
  s_out s2 = [OPdu (mkOpdu true 8 2 (PFileData 0 [1; 2; 3; 4]))] /\ s_naks s3 = [(5, 6)].
Proof. vm_compute. auto. Qed.

Print Assumptions C07_initial.
Print Assumptions C07_every_step.
Print Assumptions C07_nak_split_wellformed.
Print Assumptions C07_file_data_correct.
Print Assumptions C07_eof_truthful.
Print Assumptions C07_first_pass_covers.
Print Assumptions C07_first_pass_in_order.
Print Assumptions C07_headers_initial.
Print Assumptions C07_headers_every_step.
