(* C20 — progress figures are truthful. Pinned statements only. *)
From CFDP Require Import Base.Prelude Model.Segments Model.Timer Model.TxTypes Model.Recv Model.Send
  Proofs.SegmentsP Proofs.RecvInv Proofs.SendP Proofs.KeepAliveP.

(* Receiver: in every reachable state the progress figure (received_file_size, the value
   carried by KeepAlive PDUs and by Fault / Abandon / Resumed indications) equals the number of
   bytes covered by the well-formed segment list, i.e. (C09) the number of distinct bytes held. *)
Theorem C20_receiver_progress_invariant : forall FS fs_write_file fs_exec resp_fail not_performed cksum resp_len req_len
  now o (s : rstate FS), D20 FS s ->
  D20 FS (fst (rstep FS fs_write_file fs_exec resp_fail not_performed cksum resp_len req_len now o s)).
Proof. exact D20_rstep. Qed.

Theorem C20_receiver_progress_initial : forall FS now cfg np (fs : FS), D20 FS (r_new now cfg np fs).
Proof. exact D20_init. Qed.

Theorem C20_receiver_outputs_carry_progress : forall FS now c (s : rstate FS),
  (exists s1, fst (handle_fault now c s) = s1 /\ In (OInd (IFault c (r_recvd s))) (r_out s1)) /\
  In (OInd (IAbandon (r_cond s) (r_recvd s))) (r_out (abandon now s)) /\
  In (OInd (IResumed (r_recvd s))) (r_out (resume now s)).
Proof. exact progress_sites. Qed.

(* the figure sent to the PEER: the Keep Alive PDU answering a Prompt(Keep Alive) carries
   received_file_size - in every phase - and answering leaves the figure and the data untouched *)
Theorem C20_keepalive_carries_progress : forall FS resp_len req_len now (s : rstate FS),
  r_prompt s = Some PKeepAlive ->
  let s' := send_pdu resp_len req_len now s in
  (exists p, r_out s' = OPdu p :: r_out s /\ o_payload p = PKeepAliveP (r_recvd s)) /\
  r_prompt s' = None /\ r_recvd s' = r_recvd s.
Proof. exact keepalive_carries_progress. Qed.

(* Sender: after every step the progress is the maximum of the previous progress and the
   highest end offset among the file data PDUs emitted in the step - so, by induction, it is
   the highest offset transmitted so far; it never decreases. With C07 (every file data PDU
   lies inside the file) it never exceeds the file size. *)
Theorem C20_sender_progress_step : forall cksum resp_len req_len now o s,
  let s' := fst (sstep cksum resp_len req_len now o s) in
  s_sent s' = N.max (s_sent s) (hi (s_out s')).
Proof. exact sent_step. Qed.

Example C20_nonvacuous :
  D20 unit (store_file_data 10 [1; 2; 3] (r_new 0 (mkConfig Acked false false 16 3 1 1 1 [] 1 2 7 1 1) (Deferred 0) tt)) /\
  r_recvd (store_file_data 10 [1; 2; 3] (r_new 0 (mkConfig Acked false false 16 3 1 1 1 [] 1 2 7 1 1) (Deferred 0) tt)) = 3.
Proof. split; [|reflexivity]. apply D20_store. apply D20_init. Qed.

Print Assumptions C20_receiver_progress_invariant.
Print Assumptions C20_receiver_progress_initial.
Print Assumptions C20_receiver_outputs_carry_progress.
Print Assumptions C20_sender_progress_step.
Print Assumptions C20_keepalive_carries_progress.
