(* C04 — a completed delivery is final: late or duplicate PDUs cannot undo or redo it.
   Receive-transaction model (Model/Recv.v), for every instantiation of its parameters
   (filestore, checksum), every operation sequence, every time stamps. Pinned statements only. *)
From CFDP Require Import Base.Prelude Model.Segments Model.Timer Model.TxTypes Model.Recv Model.TxInst
  Proofs.RecvP Proofs.RecvP4 Proofs.RecvRun.

Section C04.
Variable FS : Type.
Variable fs_write_file : FS -> bytes -> bytes -> option FS.
Variable fs_exec : FS -> fsreq -> FS * fsresp.
Variable resp_fail : fsresp -> bool.
Variable not_performed : fsreq -> fsresp.
Variable cksum : cktype -> bytes -> N.
Variable resp_len : fsresp -> N.
Variable req_len : fsreq -> N.
Notation rrun := (rrun fs_write_file fs_exec resp_fail not_performed cksum resp_len req_len).
Notation routs := (routs fs_write_file fs_exec resp_fail not_performed cksum resp_len req_len).

(* Once the receive-data phase has been left (Finished or Cancelled), no operation sequence
   - duplicate EOF, late file data, metadata, prompts, ACKs, timeouts, user requests -
   changes the filestore (the delivered file, the effects of the filestore requests) or
   returns to the receive-data phase: finalisation, and with it the execution of the
   filestore requests, cannot happen a second time. *)
Theorem C04_delivery_is_final : forall ops (s : rstate FS), r_phase s <> RecvData ->
  r_fs (rrun ops s) = r_fs s /\ r_phase (rrun ops s) <> RecvData.
Proof. intros ops s H. exact (frozen_run FS fs_write_file fs_exec resp_fail not_performed cksum resp_len req_len ops s H). Qed.

(* After a successful delivery (phase Finished, condition NoError, the prepared Finished PDU
   carrying NoError) nothing emitted later - Fault or Finished indication, Finished PDU -
   reports FileChecksumFailure or FilesizeError. *)
Theorem C04_no_integrity_failure_after_success : forall ops (s : rstate FS) f b,
  r_phase s = RFinished -> r_cond s = NoError -> r_fin s = Some (f, b) -> fin_cond f = NoError ->
  Forall clean (routs ops (set_r_out [] s)).
Proof.
  intros ops s f b H1 H2 H3 H4. apply clean_run. eapply J4_entry; eassumption.
Qed.
End C04.

(* non-vacuity: a concrete acknowledged transfer of a 5-byte file completes, and the state
   reached satisfies the hypotheses; a duplicate EOF afterwards is only acknowledged again *)
Definition ex_cfg : config :=
  mkConfig Acked false false 16 3 10000 3000 4000 [] 1 2 7 1 1.
Definition ex_md : metadata := mkMeta [115] [100] 5 CkModular false [] [].
Definition ex_file : bytes := [1; 2; 3; 4; 5].
Definition ex_ops : list (N * rop) :=
  [(0, RPdu (PMetadata ex_md)); (1, RPdu (PFileData 0 ex_file));
   (2, RPdu (PEof (mkEof NoError (inst_cksum CkModular ex_file) 5 None)))].
Definition ex_run (ops : list (N * rop)) :=
  rrun flat_write inst_exec inst_resp_fail inst_not_performed inst_cksum inst_tlv_len inst_tlv_len ops
       (r_new 0 ex_cfg (Deferred 0) ([] : flat_fs)).

Example C04_nonvacuous :
  let s := ex_run ex_ops in
  r_phase s = RFinished /\ r_cond s = NoError /\ flat_lookup (r_fs s) [100] = Some ex_file /\
  (exists f b, r_fin s = Some (f, b) /\ fin_cond f = NoError) /\
  let s' := ex_run (ex_ops ++ [(3, RPdu (PEof (mkEof NoError (inst_cksum CkModular ex_file) 5 None)))]) in
  r_fs s' = r_fs s /\ r_phase s' = RFinished.
Proof. vm_compute. splits; try reflexivity. eexists; eexists; split; reflexivity. Qed.

Check C04_delivery_is_final : forall FS fs_write_file fs_exec resp_fail not_performed cksum resp_len req_len
  ops (s : rstate FS), r_phase s <> RecvData ->
  r_fs (rrun fs_write_file fs_exec resp_fail not_performed cksum resp_len req_len ops s) = r_fs s /\
  r_phase (rrun fs_write_file fs_exec resp_fail not_performed cksum resp_len req_len ops s) <> RecvData.

(* "once": a step that changes the filestore - stores the delivered file, executes the filestore
   requests - ends the receive-data phase or the transaction; hence in any history executed the
   way the transaction's loop does (it stops at Terminated) the filestore changes at most once:
   after its first change nothing changes it again, whatever else arrives *)
From CFDP Require Import Proofs.OnceP.
Theorem C04_step_changes_filestore_only_when_ending : forall FS fs_write_file fs_exec resp_fail not_performed cksum
  resp_len req_len now o (s : rstate FS),
  let s' := fst (rstep FS fs_write_file fs_exec resp_fail not_performed cksum resp_len req_len now o s) in
  r_fs s' = r_fs s \/ r_phase s' <> RecvData \/ r_state s' = TTerminated.
Proof. exact rstep_changes_filestore_once. Qed.
Theorem C04_filestore_changes_at_most_once : forall FS fs_write_file fs_exec resp_fail not_performed cksum
  resp_len req_len ops1 (s : rstate FS) ops2,
  r_fs (rrun fs_write_file fs_exec resp_fail not_performed cksum resp_len req_len ops1 s) <> r_fs s ->
  r_fs (rrun fs_write_file fs_exec resp_fail not_performed cksum resp_len req_len (ops1 ++ ops2) s) =
  r_fs (rrun fs_write_file fs_exec resp_fail not_performed cksum resp_len req_len ops1 s).
Proof. exact filestore_changes_at_most_once. Qed.

(* what the late arrivals do to a transaction that has left the receive-data phase, exactly: file
   data and (unacknowledged) EOF are ignored - the state is returned unchanged; an acknowledged-mode
   EOF is acknowledged again and nothing else changes *)
Theorem C04_late_file_data_ignored : forall FS fs_write_file fs_exec resp_fail not_performed cksum now o d (s : rstate FS),
  r_phase s <> RecvData ->
  pdu_filedata_acked FS fs_write_file fs_exec resp_fail not_performed cksum now o d s = s /\
  pdu_filedata_unacked o d s = s.
Proof. intros. split; [apply late_filedata_acked|apply late_filedata_unacked]; assumption. Qed.
Theorem C04_late_eof_only_acknowledged : forall FS fs_write_file fs_exec resp_fail not_performed cksum now e (s : rstate FS),
  r_phase s <> RecvData ->
  pdu_eof_acked FS fs_write_file fs_exec resp_fail not_performed cksum now e s = prepare_ack_eof s /\
  pdu_eof_unacked FS fs_write_file fs_exec resp_fail not_performed cksum now e s = s.
Proof. intros. split; [apply late_eof_acked|apply late_eof_unacked]; assumption. Qed.

Print Assumptions C04_delivery_is_final.
Print Assumptions C04_no_integrity_failure_after_success.
Print Assumptions C04_step_changes_filestore_only_when_ending.
Print Assumptions C04_filestore_changes_at_most_once.
Print Assumptions C04_late_file_data_ignored.
Print Assumptions C04_late_eof_only_acknowledged.
