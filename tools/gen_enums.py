#!/usr/bin/env python3
"""gen_enums.py <repo> <out.v>

Re-extracts the discriminant tables of every field-less enum of the cfdp-core codec sources into
a Coq file (Gen/Enums.v).  For each enum E with variants V1..Vn the output contains

  Inductive E : Set := E_V1 | ... | E_Vn.
  Definition E_idx : E -> N            (ordinal of the constructor, in declaration order)
  Definition E_table : list (E * N)    (constructor, discriminant as written in the Rust source)
  Definition E_to_u8 : E -> N          (lookup in E_table)
  Definition E_from_u8 : N -> option E (reverse lookup in E_table)

The round trip E_from_u8 (E_to_u8 x) = Some x and the "fits its bit field" facts are NOT generated:
they are proved in Proofs/EnumsP.v by computation over whatever table this file contains, so a
changed discriminant in the Rust source re-checks the codec proofs against what the code says now.

The file is only rewritten when its content changes.  One status line is printed.  Exit status is
non-zero when a required enum is missing or a discriminant cannot be parsed (./check then falls
back to the committed snapshot).
"""
import os
import re
import sys

SOURCES = [
    "cfdp-core/src/pdu/header.rs",
    "cfdp-core/src/pdu/ops.rs",
    "cfdp-core/src/pdu/filestore.rs",
    "cfdp-core/src/pdu/fault_handler.rs",
    "cfdp-core/src/pdu/user_ops.rs",
    "cfdp-core/src/filestore.rs",
    "cfdp-core/src/transaction.rs",
]

# enums the Coq model refers to; their absence is an error
REQUIRED = [
    "Condition", "U3", "PDUType", "Direction", "TransmissionMode", "TraceControl", "CRCFlag",
    "FileSizeFlag", "SegmentationControl", "SegmentedData", "NakOrKeepAlive", "DeliveryCode",
    "FileStatusCode", "TransactionStatus", "MessageType", "MetadataTLVFieldCode", "PDUDirective",
    "ACKSubDirective", "RecordContinuationState", "FileStoreAction", "CreateFileStatus",
    "DeleteFileStatus", "RenameStatus", "AppendStatus", "ReplaceStatus", "CreateDirectoryStatus",
    "RemoveDirectoryStatus", "DenyStatus", "FaultHandlerAction", "HandlerCode",
    "ListingResponseCode", "ChecksumType", "TransactionState",
]


class ParseError(Exception):
    pass


def strip_comments(src):
    """remove // and /* */ comments and the contents of string/char literals"""
    out = []
    i, n = 0, len(src)
    while i < n:
        c = src[i]
        if src.startswith("//", i):
            j = src.find("\n", i)
            i = n if j < 0 else j
        elif src.startswith("/*", i):
            depth, i = 1, i + 2
            while i < n and depth:
                if src.startswith("/*", i):
                    depth += 1; i += 2
                elif src.startswith("*/", i):
                    depth -= 1; i += 2
                else:
                    i += 1
        elif c == '"':
            i += 1
            while i < n and src[i] != '"':
                i += 2 if src[i] == "\\" else 1
            i += 1
            out.append('""')
        elif c == "'" and re.match(r"'(\\.|[^\\'])'", src[i:]):
            m = re.match(r"'(\\.|[^\\'])'", src[i:])
            i += m.end()
            out.append("' '")
        else:
            out.append(c)
            i += 1
    return "".join(out)


def parse_literal(text, where):
    t = text.strip().replace("_", "")
    t = re.sub(r"(u8|u16|u32|u64|usize|i8|i16|i32|i64|isize)$", "", t)
    try:
        if t.startswith("0b"):
            return int(t[2:], 2)
        if t.startswith("0x"):
            return int(t[2:], 16)
        if t.startswith("0o"):
            return int(t[2:], 8)
        if re.fullmatch(r"[0-9]+", t):
            return int(t)
    except ValueError:
        pass
    raise ParseError("%s: discriminant `%s` is not an integer literal" % (where, text.strip()))


def split_top(body):
    """split an enum body at top-level commas"""
    parts, depth, cur = [], 0, []
    for c in body:
        if c in "([{<":
            depth += 1
        elif c in ")]}>":
            depth -= 1
        if c == "," and depth == 0:
            parts.append("".join(cur)); cur = []
        else:
            cur.append(c)
    if "".join(cur).strip():
        parts.append("".join(cur))
    return parts


def parse_enums(path, src):
    """-> list of (name, [(variant, value)]) for the field-less enums of one file"""
    src = strip_comments(src)
    res = []
    for m in re.finditer(r"\benum\s+([A-Za-z_][A-Za-z0-9_]*)\s*\{", src):
        name = m.group(1)
        # body up to the matching brace
        depth, i = 1, m.end()
        while i < len(src) and depth:
            depth += {"{": 1, "}": -1}.get(src[i], 0)
            i += 1
        if depth:
            raise ParseError("%s: enum %s: unbalanced braces" % (path, name))
        body = src[m.end():i - 1]
        variants, fieldless, nxt = [], True, 0
        for part in split_top(body):
            p = re.sub(r"#\s*\[[^\]]*\]", "", part).strip()  # attributes
            if not p:
                continue
            mm = re.fullmatch(r"([A-Za-z_][A-Za-z0-9_]*)\s*(?:=\s*(.+))?", p, re.S)
            if not mm:
                fieldless = False  # tuple / struct variant: not a plain discriminant table
                break
            if mm.group(2) is not None:
                nxt = parse_literal(mm.group(2), "%s: enum %s::%s" % (path, name, mm.group(1)))
            variants.append((mm.group(1), nxt))
            nxt += 1
        if fieldless and variants:
            res.append((name, variants))
    return res


PREAMBLE = """(* GENERATED by tools/gen_enums.py from the Rust sources of cfdp-core -- do not edit.
   Discriminant tables of the field-less enums of the codec, re-extracted on every check run.
   Sources: %s *)
From Coq Require Import List NArith.
Import ListNotations.
Open Scope N_scope.

(* lookup in a generated table; [idx] is the ordinal of a constructor *)
Fixpoint enum_to_code {A : Type} (idx : A -> N) (t : list (A * N)) (a : A) : N :=
  match t with
  | [] => 0
  | (a', c) :: r => if idx a' =? idx a then c else enum_to_code idx r a
  end.
Fixpoint enum_of_code {A : Type} (t : list (A * N)) (c : N) : option A :=
  match t with
  | [] => None
  | (a, c') :: r => if c' =? c then Some a else enum_of_code r c
  end.
"""


def render(enums, sources):
    out = [PREAMBLE % ", ".join(sources)]
    for name, variants in enums:
        cons = ["%s_%s" % (name, v) for v, _ in variants]
        out.append("(* enum %s *)" % name)
        out.append("Inductive %s : Set :=\n%s." % (name, "\n".join("  | " + c for c in cons)))
        out.append("Definition %s_idx (x : %s) : N :=\n  match x with\n%s\n  end."
                   % (name, name, "\n".join("  | %s => %d" % (c, i) for i, c in enumerate(cons))))
        out.append("Definition %s_all : list %s :=\n  [%s]." % (name, name, "; ".join(cons)))
        out.append("Definition %s_table : list (%s * N) :=\n  [%s]."
                   % (name, name, ";\n   ".join("(%s, %d)" % (c, val) for c, (_, val) in zip(cons, variants))))
        out.append("Definition %s_to_u8 (x : %s) : N := enum_to_code %s_idx %s_table x." % (name, name, name, name))
        out.append("Definition %s_from_u8 (c : N) : option %s := enum_of_code %s_table c." % (name, name, name))
        out.append("")
    out.append("(* names of all generated enums, for the side-condition file Proofs/EnumsP.v *)")
    out.append("Definition generated_enum_count : N := %d." % len(enums))
    return "\n".join(out) + "\n"


def main():
    if len(sys.argv) != 3:
        print("usage: gen_enums.py <repo> <out.v>")
        return 2
    repo, outp = sys.argv[1], sys.argv[2]
    enums, seen = [], {}
    try:
        for rel in SOURCES:
            p = os.path.join(repo, rel)
            if not os.path.exists(p):
                raise ParseError("source file missing: %s" % rel)
            for name, variants in parse_enums(rel, open(p).read()):
                if name in seen:
                    raise ParseError("enum %s defined in both %s and %s" % (name, seen[name], rel))
                seen[name] = rel
                enums.append((name, variants))
        missing = [n for n in REQUIRED if n not in seen]
        if missing:
            raise ParseError("required enum(s) not found or no longer field-less: " + ", ".join(missing))
        for name, variants in enums:
            for v, val in variants:
                if not 0 <= val <= 255:
                    raise ParseError("enum %s::%s = %d does not fit a u8" % (name, v, val))
    except ParseError as e:
        print("gen_enums: CANNOT PARSE: %s" % e)
        return 1
    text = render(enums, SOURCES)
    old = open(outp).read() if os.path.exists(outp) else None
    nvar = sum(len(v) for _, v in enums)
    if old == text:
        print("gen_enums: %d enums / %d discriminants, Gen/Enums.v unchanged" % (len(enums), nvar))
    else:
        os.makedirs(os.path.dirname(outp), exist_ok=True)
        with open(outp, "w") as f:
            f.write(text)
        print("gen_enums: %d enums / %d discriminants, Gen/Enums.v %s"
              % (len(enums), nvar, "rewritten (content changed)" if old is not None else "created"))
    return 0


if __name__ == "__main__":
    sys.exit(main())
