#!/usr/bin/env python3
"""Writes MANIFEST.json from tools/props.py (claimed checks) and tools/not_claimed.json."""
import json, os, sys
ROOT = os.path.dirname(os.path.dirname(os.path.abspath(__file__)))
sys.path.insert(0, os.path.join(ROOT, "tools"))
import props
hooks_commits = open(os.path.join(ROOT, "tools", "hook_commits.txt")).read().split()
all_ids = [json.loads(l)["id"] for l in open(os.path.join(ROOT, "properties.jsonl"))]
checks = []
for pid in all_ids:
    if pid not in props.PROPS:
        continue
    c = props.PROPS[pid]
    checks.append({
        "property_id": pid,
        "quick_cmd": "./check %s --tier quick" % pid,
        "thorough_cmd": "./check %s --tier thorough" % pid,
        "evidence_file": "/verif/evidence/%s.json" % pid,
        "replay_cmd_template": "./check %s --replay {path}" % pid,
        "engine": "coq-model+correspondence",
        "level_claimed": {"category": "proof", "text": c["level_text"], "design_ref": c.get("design_ref", "DESIGN.md section 5, " + pid)},
        "level_note": c["level_note"],
        "technique": c.get("technique", "machine-checked proof in Coq 8.16 over a hand-written Gallina model, tied to the Rust code by lock-step differential execution of the extracted model"),
    })
reasons = json.load(open(os.path.join(ROOT, "tools", "not_claimed.json")))
na = [{"property_id": p, "reason": reasons.get(p, "not claimed: its model/proof has not been built yet in this development (see DESIGN.md section 7 for the order)")}
      for p in all_ids if p not in props.PROPS]
m = {
    "version": 1,
    "setup_cmd": "./setup.sh",
    "hooks": {
        "guard": "--cfg cfdp_verif",
        "enable": "RUSTFLAGS=\"--cfg cfdp_verif --cfg tokio_unstable\" cargo build (the harness crate /verif/harness depends on /repo/cfdp-core and /repo/cfdp-daemon by path)",
        "baseline_off_cmd": "/verif/baseline_off.sh",
        "source_commits": hooks_commits,
        "add_only": True,
    },
    "engines": [{
        "name": "coq-model+correspondence",
        "path": "/verif/check",
        "serves_properties": [c["property_id"] for c in checks],
        "kind_free_text": "Coq 8.16 theorems over a hand-written executable Gallina model (coq/theories); model extracted to OCaml and run in lock-step against the real Rust code by /verif/harness; enum tables regenerated from the Rust source by tools/gen_enums.py",
    }],
    "checks": checks,
    "notes": "All checks decide by machine-checked proof in Coq plus a checked model-to-code correspondence; see DESIGN.md.",
    "not_applicable": na,
}
json.dump(m, open(os.path.join(ROOT, "MANIFEST.json"), "w"), indent=1)
print("MANIFEST.json: %d checks, %d not claimed" % (len(checks), len(na)))
