"""Per-property configuration of ./check: Coq cone, pinned theorems, correspondence streams."""

TRUSTED_BASE = [
    "Coq 8.16.1 kernel (coqc; coqchk in the thorough tier); vm_compute; no native_compute",
    "axioms: none (every pinned theorem is 'Closed under the global context'; audited on every run)",
    "extraction: Require Extraction + ExtrOcamlBasic only (Extract Inductive bool/option/unit/list/prod/sumbool/sumor); no Extract Constant; positive/N/Z stay inductive",
    "OCaml 4.13.1 + zarith (driver: parsing of op lines, printing of observations, N<->Z.t conversion) - trusted for the correspondence, not for the theorems",
    "Rust harness /verif/harness (generators, canonical printing, oracles), rustc, catch_unwind - trusted for the correspondence",
    "tools/gen_enums.py (regex translator of #[repr(u8)] enum tables) - cross-checked by the byte-level correspondence",
]

PROPS = {
    "C09": {
        "props_files": ["C09"],
        "theorems": ["C09_union", "C09_merge", "C09_total_is_cardinality", "C09_complete",
                     "C09_empty_file_complete", "C09_gaps"],
        "components": ["segments"],
        "rule": "cases = operation histories on one Segments value (MERGE/GAPS/COMPLETE/LEN/END); bounded-exhaustive "
                "short histories over a small universe with every window query + seeded random histories (length<=40) over "
                "4 universes (12 positions, 2^16, around 2^32, up to 2^64-1), 4% malformed (empty/inverted) segments; "
                "non-trivial = at least 2 operations; distinct = distinct op-list text",
        "explanation": "Theorems over Model/Segments.v for all segment sequences (induction over the list, unbounded N); "
                       "model tied to segments.rs by lock-step differential execution of the extracted model and the real "
                       "Segments (hook cfdp_daemon::verif) with a set-union reference oracle on the implementation's outputs.",
        "level_text": "Full proof on the model: for every sequence of segments (any length, offsets up to 2^64) the list invariant, "
                      "cover = set union, returned counts = number of new distinct bytes, is_complete <-> [0,n) covered, and gaps = "
                      "maximal uncovered sub-ranges of any window are Coq theorems; the model is tied to segments.rs by lock-step "
                      "execution with bounded-exhaustive and random histories. This is the right level because the property quantifies "
                      "over all histories of a pure data structure.",
        "level_note": "Trusted: Coq kernel; extraction (ExtrOcamlBasic); OCaml driver and Rust harness printing; that the Vec binary "
                      "search picks the same position as the model's list walk is tested by the correspondence, not proved.",
        "assumptions": ["binary search on the sorted Vec selects the position of the model's list walk (compared on every run)",
                        "offsets < 2^64 so that u64 arithmetic does not wrap (segments are (offset, offset+len) of received PDUs)"],
    },
    "C14": {
        "props_files": ["C14"],
        "theorems": ["C14_all_chunkings", "C14_until_eof", "C14_null", "C14_modular", "C14_single_byte_change",
                     "C14_agree_iff_same", "C14_range"],
        "components": ["checksum"],
        "rule": "cases = one file content with several checksum calls (K: real File / Cursor / a Read+Seek adaptor returning scripted "
                "short reads; D: a pair of contents, identical or differing in one byte, read with two different chunkings); every length "
                "0..70 x 3 contents x every constant read size 1..9 + random sizes; lengths within 5 of 8192/16384 (thorough: up to 40960) "
                "with read sizes 8191/8192/8193/4097/mixed; random contents up to 40 KiB with mixed read sizes, 20% adversarial (early "
                "end-of-file reads, all-0xff / carry-propagating contents); bounded exhaustive: every chunking of every length <= 11 "
                "(thorough 14) into reads of 1..5 bytes; non-trivial = at least 2 operations; distinct = distinct op-list text",
        "explanation": "Theorems over Model/Checksum.v for all chunk lists and all contents (induction four bytes at a time, unbounded N "
                       "with the mod 2^32 written explicitly); model tied to filestore.rs by differential execution of the extracted model "
                       "and the real FileChecksum::checksum on files, cursors and a short-reading reader whose observed read sizes are "
                       "compared too; oracle = naive padded big-endian word sum on the implementation's outputs.",
        "level_text": "Full proof on the model: for every list of non-empty buffers handed out by the reader (any chunking, any total length "
                      "including 0 and non-multiples of 4) the buffer-by-buffer computation equals the CCSDS definition (zero-pad to a multiple "
                      "of 4, big-endian words, sum mod 2^32); Null is 0; two equal-length contents differing in exactly one byte have different "
                      "checksums, hence readers with different chunkings agree on identical data and disagree after a one-byte change. The model "
                      "is tied to filestore.rs by differential execution with scripted short reads, boundary lengths and bounded-exhaustive "
                      "chunkings. This is the right level because the property quantifies over all contents and all chunkings of a pure function.",
        "level_note": "Trusted: Coq kernel; extraction (ExtrOcamlBasic); OCaml driver and Rust harness printing; BufReader semantics (one read "
                      "call of at most 8192 bytes per fill_buf after consume(len); rewind discards the buffer) is modelled as the explicit chunk "
                      "list and cross-checked on every run by comparing the read sizes the adaptor observed with the ones the model was given.",
        "assumptions": ["the reader is well behaved: Ok(0) means end of file, data does not change while it is read",
                        "BufReader::fill_buf hands out exactly what one read call of the underlying reader returned (compared on every run)",
                        "bytes are < 256 (single-byte sensitivity is stated for byte values)"],
    },
}
