"""Per-property configuration of ./check: Coq cone, pinned theorems, correspondence streams."""

TRUSTED_BASE = [
    "Coq 8.16.1 kernel (coqc; coqchk in the thorough tier); vm_compute; no native_compute",
    "axioms: none (every pinned theorem is 'Closed under the global context'; audited on every run)",
    "extraction: Require Extraction + ExtrOcamlBasic only (Extract Inductive bool/option/unit/list/prod/sumbool/sumor); no Extract Constant; positive/N/Z stay inductive",
    "OCaml 4.13.1 + zarith (driver: parsing of op lines, printing of observations, N<->Z.t conversion) - trusted for the correspondence, not for the theorems",
    "Rust harness /verif/harness (generators, canonical printing, oracles), rustc, catch_unwind - trusted for the correspondence",
    "tools/gen_enums.py (regex translator of #[repr(u8)] enum tables) - cross-checked by the byte-level correspondence",
]

PROPS = {
    "C09": {
        "props_files": ["C09"],
        "theorems": ["C09_union", "C09_merge", "C09_total_is_cardinality", "C09_complete",
                     "C09_empty_file_complete", "C09_gaps"],
        "components": ["segments"],
        "rule": "cases = operation histories on one Segments value (MERGE/GAPS/COMPLETE/LEN/END); bounded-exhaustive "
                "short histories over a small universe with every window query + seeded random histories (length<=40) over "
                "4 universes (12 positions, 2^16, around 2^32, up to 2^64-1), 4% malformed (empty/inverted) segments; "
                "non-trivial = at least 2 operations; distinct = distinct op-list text",
        "explanation": "Theorems over Model/Segments.v for all segment sequences (induction over the list, unbounded N); "
                       "model tied to segments.rs by lock-step differential execution of the extracted model and the real "
                       "Segments (hook cfdp_daemon::verif) with a set-union reference oracle on the implementation's outputs.",
        "level_text": "Full proof on the model: for every sequence of segments (any length, offsets up to 2^64) the list invariant, "
                      "cover = set union, returned counts = number of new distinct bytes, is_complete <-> [0,n) covered, and gaps = "
                      "maximal uncovered sub-ranges of any window are Coq theorems; the model is tied to segments.rs by lock-step "
                      "execution with bounded-exhaustive and random histories. This is the right level because the property quantifies "
                      "over all histories of a pure data structure.",
        "level_note": "Trusted: Coq kernel; extraction (ExtrOcamlBasic); OCaml driver and Rust harness printing; that the Vec binary "
                      "search picks the same position as the model's list walk is tested by the correspondence, not proved.",
        "assumptions": ["binary search on the sorted Vec selects the position of the model's list walk (compared on every run)",
                        "offsets < 2^64 so that u64 arithmetic does not wrap (segments are (offset, offset+len) of received PDUs)"],
    },
    "C15": {
        "props_files": ["C15"],
        "theorems": ["C15_clean_accepted", "C15_crc_affine", "C15_single_bit", "C15_double_bit_window", "C15_burst16",
                     "C15_odd_weight", "C15_frame_delimited_by_header", "C15_corrupt_rejected",
                     "C15_model_check_rejects", "C15_model_check_clean"],
        "components": ["crc"],
        "rule": "cases = (a) CRC values: 7 fixed vectors, seeded random messages of length 0..300 (all-zero / all-ones / boundary-octet / "
                "random contents), all 65536 two-octet messages, (state, octet) pairs through 3-octet messages (96 x 256 quick, all "
                "2^24 thorough); (b) per valid CRC-bearing PDU made by the real encoder (16 kinds: EOF with/without fault location, "
                "Finished plain / with filestore responses / with fault location, ACK of EOF / of Finished, Metadata with/without "
                "options, NAK with/without segment requests, Prompt, KeepAlive, file data unsegmented / segmented / long; both "
                "file-size flags; entity-id widths 1/2/4/8; plus a 40-option Metadata and a 30-request NAK) three cases: every "
                "single-bit flip at every bit >= 32, every pair of flips within a 40-bit window, burst patterns of <= 16 bits "
                "(exhaustive up to a length that depends on the frame size, seeded sample above it; long frames sampled in the quick "
                "tier), the same errors with other octets following the frame in the same arrival, the same PDU without the "
                "CRC (frame delimitation only), and errors outside the classes that break the CRC (scattered flips, replaced or "
                "exchanged octets, long bursts: the decoder must reject them because the check fails); non-trivial = at least 2 ops; distinct = distinct op-list text",
        "explanation": "Theorems over Model/Crc.v (the octet-wise CRC-16 routine of pdu.rs, over N with the u16 masks written out) for "
                       "messages and error patterns of every length; the finite parts (2^16 register states, 2^16 sixteen-bit words, "
                       "one orbit of 32766 shifts) are vm_compute sweeps lifted by forallb_forall with the bound in the statement. "
                       "The model is tied to pdu.rs by differential execution: verif_crc16 vs the extracted crc16, and real "
                       "PDU::decode on corrupted real encodings vs the extracted receiver_frame_check (frame_span from the header, "
                       "then crc_frame_ok) on the same octets, and the number of octets consumed vs receiver_consumed; an oracle independent "
                       "of the model (bit-serial reference CRC; 'decoded PDU differs from the original' / 'unaltered encoding not "
                       "accepted') evaluates the property itself on the implementation's outputs.",
        "level_text": "Full proof on the model, for frames and error patterns of unbounded length: an unaltered frame passes the receiver's "
                      "CRC check; a frame hit by any single-bit error, any double-bit error less than 32767 bit positions apart (the "
                      "window is shown tight by a counterexample at distance 32767), any non-zero error confined to 16 consecutive bits, "
                      "or any error of odd weight fails it; the frame the receiver delimits depends on the first four octets only; hence "
                      "every decoder that accepts a CRC-flagged PDU only if the octets it delimited pass the check rejects every such "
                      "corrupted PDU whose first four octets are intact (C15_corrupt_rejected, the decoder is a parameter with that one "
                      "hypothesis). That PDU::decode is such a decoder is by construction of the codec model's decoder and is tied to "
                      "the Rust code by the correspondence streams (real decode vs model frame check on every generated corruption). "
                      "This is the right level because the property quantifies over all PDUs and all errors of the classes.",
        "level_note": "Trusted: Coq kernel and vm_compute; extraction (ExtrOcamlBasic); OCaml driver and Rust harness (pattern "
                      "enumeration is implemented twice, once per side). Not proved here: that PDU::decode computes the CRC over "
                      "exactly the octets of the delimited frame and compares it with the last two (hypothesis decode_checks_crc of "
                      "C15_corrupt_rejected; established for the codec model by construction, for the Rust code by correspondence). "
                      "A panic of the decoder on a corrupted frame counts as a rejection here (panics are property C06) and is logged "
                      "as a NOTE line in oracle.txt.",
        "assumptions": ["PDU::decode, when the header's CRC flag is set, returns Ok only if crc16(header + data field octets as received) "
                        "equals the two octets that follow (true of the code after /repo commit dded641; compared on every run)",
                        "the error leaves the first four octets (flags, PDU data field length, id-length octet) unchanged, as the "
                        "property states; double-bit errors are covered when less than 32767 bit positions apart (always the case "
                        "for PDUs of up to 4095 octets)"],
    },
}
