"""Per-property configuration of ./check: Coq cone, pinned theorems, correspondence streams."""

TRUSTED_BASE = [
    "Coq 8.16.1 kernel (coqc; coqchk in the thorough tier); vm_compute; no native_compute",
    "axioms: none (every pinned theorem is 'Closed under the global context'; audited on every run)",
    "extraction: Require Extraction + ExtrOcamlBasic only (Extract Inductive bool/option/unit/list/prod/sumbool/sumor); no Extract Constant; positive/N/Z stay inductive",
    "OCaml 4.13.1 + zarith (driver: parsing of op lines, printing of observations, N<->Z.t conversion) - trusted for the correspondence, not for the theorems",
    "Rust harness /verif/harness (generators, canonical printing, oracles), rustc, catch_unwind - trusted for the correspondence",
    "tools/gen_enums.py (regex translator of #[repr(u8)] enum tables) - cross-checked by the byte-level correspondence",
]

PROPS = {
    "C09": {
        "props_files": ["C09"],
        "theorems": ["C09_union", "C09_merge", "C09_total_is_cardinality", "C09_complete",
                     "C09_empty_file_complete", "C09_gaps"],
        "components": ["segments"],
        "rule": "cases = operation histories on one Segments value (MERGE/GAPS/COMPLETE/LEN/END); bounded-exhaustive "
                "short histories over a small universe with every window query + seeded random histories (length<=40) over "
                "4 universes (12 positions, 2^16, around 2^32, up to 2^64-1), 4% malformed (empty/inverted) segments; "
                "non-trivial = at least 2 operations; distinct = distinct op-list text",
        "explanation": "Theorems over Model/Segments.v for all segment sequences (induction over the list, unbounded N); "
                       "model tied to segments.rs by lock-step differential execution of the extracted model and the real "
                       "Segments (hook cfdp_daemon::verif) with a set-union reference oracle on the implementation's outputs.",
        "level_text": "Full proof on the model: for every sequence of segments (any length, offsets up to 2^64) the list invariant, "
                      "cover = set union, returned counts = number of new distinct bytes, is_complete <-> [0,n) covered, and gaps = "
                      "maximal uncovered sub-ranges of any window are Coq theorems; the model is tied to segments.rs by lock-step "
                      "execution with bounded-exhaustive and random histories. This is the right level because the property quantifies "
                      "over all histories of a pure data structure.",
        "level_note": "Trusted: Coq kernel; extraction (ExtrOcamlBasic); OCaml driver and Rust harness printing; that the Vec binary "
                      "search picks the same position as the model's list walk is tested by the correspondence, not proved.",
        "assumptions": ["binary search on the sorted Vec selects the position of the model's list walk (compared on every run)",
                        "offsets < 2^64 so that u64 arithmetic does not wrap (segments are (offset, offset+len) of received PDUs)"],
    },
    "C05": {
        "props_files": ["C05"],
        "theorems": ["pdu_roundtrip", "pdu_len", "payload_len_announced", "header_roundtrip",
                     "uo_roundtrip", "uo_len", "report_roundtrip", "encodings_are_bytes"],
        "components": ["codec"],
        "rule": "cases = groups of <= 25 ops on the codec: E <PDU value> (encode + announced lengths), D <hex> (PDU::decode + "
                "re-encoding), EU/DU (UserOperation), ER/DR (daemon::Report); values in an s-expression syntax. Streams: header sweep "
                "(every version x type x direction x mode x crc x large x segctl x segmeta x id width x seq width), every enum value "
                "of every directive / TLV / status table / user operation x id widths 1/2/4/8 x both size flags x CRC on/off, seeded "
                "random well-formed values with boundary lengths 0/1/255 (63 for segment metadata) and boundary offsets, ~5% values "
                "outside the wire-format limits (truncation behaviour), decode of the valid encodings; non-trivial = at least 2 ops; "
                "distinct = distinct op-list text",
        "explanation": "Theorems over Model/Codec.v + Model/CodecUser.v for all well-formed values (unbounded N, any lengths); enum "
                       "discriminants come from Gen/Enums.v, regenerated from the Rust sources on every run, with injectivity / "
                       "bit-width side conditions re-decided by computation (Proofs/EnumsP.v). The model is tied to cfdp-core by "
                       "differential execution of the extracted model and the real encode/decode/encoded_len on the same values and "
                       "bytes, plus an independent oracle on the real code: decode(encode v) == v and encoded_len == bytes produced.",
        "level_text": "Full proof on the model: for every well-formed PDU (any header field combination, id widths 1/2/4/8, small and "
                      "large file-size encodings, CRC on or off, every directive, every metadata TLV, file data), every reserved user "
                      "operation and every status Report, decode(encode v) = v and the announced length equals the bytes produced are "
                      "Coq theorems; the model is tied to the Rust codec by byte-for-byte differential execution with exhaustive "
                      "discrete fields and generated remaining fields. This is the right level because the property quantifies over "
                      "all values of a pure function pair.",
        "level_note": "Trusted: Coq kernel; extraction (ExtrOcamlBasic); OCaml driver and Rust harness parsing/printing; the UTF-8 "
                      "validator of the model vs String::from_utf8 is compared, not proved. PDU::encoded_len returns u16: for PDUs "
                      "longer than 65535 bytes in total (data field > 65503 with the largest header) the Rust value overflows; the "
                      "theorem is over N and the streams stay below that size.",
        "assumptions": ["file names compare by bytes (stricter than Utf8PathBuf's component-wise ==)",
                        "whole-PDU encoded_len is compared only for PDUs of at most 65535 bytes (the API returns u16)"],
    },
    "C06": {
        "props_files": ["C06"],
        "theorems": ["decode_total", "decode_reads_bounded", "decode_canonical", "loops_fuel_independent",
                     "accepted_crc_frame", "per_type_decode_total",
                     "uo_decode_total", "uo_decode_canonical", "report_decode_total", "report_decode_canonical"],
        "components": ["codec"],
        "rule": "cases = groups of <= 25 ops; malformed stream: all byte strings of length <= 4 over {00,01,22,7f,80,ff} (PDU) and "
                "<= 3 (user operation after 'cfdp', Report), every truncation and every single-byte replacement by {00,01,7f,80,ff} of "
                "valid encodings of every PDU kind x size flag x crc, of every user operation and of Report, the header length field "
                "forced to {0,1,255,65535}, seeded random strings; the same (valid, valid + trailing bytes, truncations, replacements, "
                "short and random strings) for the public per-type decoders PDUHeader / Operations / FileDataPDU / MetadataTLV / "
                "VariableID / FileStoreRequest / FileStoreResponse with the number of bytes consumed; a corpus of 17 494 UTF-8 boundary "
                "file names; plus the well-formed streams of C05; non-trivial = at least 2 ops; "
                "distinct = distinct op-list text",
        "explanation": "Theorems over the same decode functions: total on all byte strings with an explicit Panic outcome for what the "
                       "dev profile checks (u8+1, u16-2, unwrap, oversize allocation), accepted values well-formed and canonical. "
                       "Tied to the real decoders by differential execution under catch_unwind with a counting allocator; oracle on "
                       "the real code: no panic, peak allocation bounded, re-encode/decode fixpoint.",
        "level_text": "Full proof on the model: for every byte string PDU::decode (and UserOperation::decode, Report::decode, the "
                      "per-type decoders) returns a value or an error, never the Panic outcome that models overflow checks, unwrap and "
                      "oversize reads; every read is bounded by 65535 bytes (stated on the instrumented read primitive); every accepted "
                      "PDU, with its length field recomputed, is well-formed and re-encodes to bytes that decode to itself. Termination "
                      "is by construction (structural recursion / fuel = buffer length). The allocation bound on the real code is "
                      "measured per decode, not proved.",
        "level_note": "Trusted: Coq kernel; extraction; OCaml driver and Rust harness; catch_unwind and the counting global allocator "
                      "(measurement: peak heap growth per decode <= 64 KiB + 3 x input length + 4 KiB).",
        "assumptions": ["inputs are byte strings (list N with every element < 256)",
                        "heap growth of the real decoder is measured, not proved"],
    },
}
