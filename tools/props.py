"""Per-property configuration of ./check: Coq cone, pinned theorems, correspondence streams."""

TRUSTED_BASE = [
    "Coq 8.16.1 kernel (coqc; coqchk in the thorough tier); vm_compute; no native_compute",
    "axioms: none (every pinned theorem is 'Closed under the global context'; audited on every run)",
    "extraction: Require Extraction + ExtrOcamlBasic only (Extract Inductive bool/option/unit/list/prod/sumbool/sumor); no Extract Constant; positive/N/Z stay inductive",
    "OCaml 4.13.1 + zarith (driver: parsing of op lines, printing of observations, N<->Z.t conversion) - trusted for the correspondence, not for the theorems",
    "Rust harness /verif/harness (generators, canonical printing, oracles), rustc, catch_unwind - trusted for the correspondence",
    "tools/gen_enums.py (regex translator of #[repr(u8)] enum tables) - cross-checked by the byte-level correspondence",
]

PROPS = {
    "C09": {
        "props_files": ["C09"],
        "theorems": ["C09_union", "C09_merge", "C09_total_is_cardinality", "C09_complete",
                     "C09_empty_file_complete", "C09_gaps"],
        "components": ["segments"],
        "rule": "cases = operation histories on one Segments value (MERGE/GAPS/COMPLETE/LEN/END); bounded-exhaustive "
                "short histories over a small universe with every window query + seeded random histories (length<=40) over "
                "4 universes (12 positions, 2^16, around 2^32, up to 2^64-1), 4% malformed (empty/inverted) segments; "
                "non-trivial = at least 2 operations; distinct = distinct op-list text",
        "explanation": "Theorems over Model/Segments.v for all segment sequences (induction over the list, unbounded N); "
                       "model tied to segments.rs by lock-step differential execution of the extracted model and the real "
                       "Segments (hook cfdp_daemon::verif) with a set-union reference oracle on the implementation's outputs.",
        "level_text": "Full proof on the model: for every sequence of segments (any length, offsets up to 2^64) the list invariant, "
                      "cover = set union, returned counts = number of new distinct bytes, is_complete <-> [0,n) covered, and gaps = "
                      "maximal uncovered sub-ranges of any window are Coq theorems; the model is tied to segments.rs by lock-step "
                      "execution with bounded-exhaustive and random histories. This is the right level because the property quantifies "
                      "over all histories of a pure data structure.",
        "level_note": "Trusted: Coq kernel; extraction (ExtrOcamlBasic); OCaml driver and Rust harness printing; that the Vec binary "
                      "search picks the same position as the model's list walk is tested by the correspondence, not proved.",
        "assumptions": ["binary search on the sorted Vec selects the position of the model's list walk (compared on every run)",
                        "offsets < 2^64 so that u64 arithmetic does not wrap (segments are (offset, offset+len) of received PDUs)"],
    },
}
