"""Per-property configuration of ./check: Coq cone, pinned theorems, correspondence streams."""

TRUSTED_BASE = [
    "Coq 8.16.1 kernel (coqc; coqchk in the thorough tier); vm_compute; no native_compute",
    "axioms: none (every pinned theorem is 'Closed under the global context'; audited on every run)",
    "extraction: Require Extraction + ExtrOcamlBasic only (Extract Inductive bool/option/unit/list/prod/sumbool/sumor); no Extract Constant; positive/N/Z stay inductive",
    "OCaml 4.13.1 + zarith (driver: parsing of op lines, printing of observations, N<->Z.t conversion) - trusted for the correspondence, not for the theorems",
    "Rust harness /verif/harness (generators, canonical printing, oracles), rustc, catch_unwind - trusted for the correspondence",
    "tools/gen_enums.py (regex translator of #[repr(u8)] enum tables) - cross-checked by the byte-level correspondence",
]

PROPS = {
    "C09": {
        "props_files": ["C09"],
        "theorems": ["C09_union", "C09_merge", "C09_total_is_cardinality", "C09_complete",
                     "C09_empty_file_complete", "C09_gaps"],
        "components": ["segments", "recv"],
        "rule": "Component recv: the lock-step receive-transaction scripts (incl. the family 'one segment lost for good plus as much stray data beyond the end of the file'), where the oracle requires that a file is judged complete only if every byte of [0, file size) is held. Component segments: cases = operation histories on one Segments value (MERGE/GAPS/COMPLETE/LEN/END); bounded-exhaustive "
                "short histories over a small universe with every window query + seeded random histories (length<=40) over "
                "4 universes (12 positions, 2^16, around 2^32, up to 2^64-1), 4% malformed (empty/inverted) segments; "
                "non-trivial = at least 2 operations; distinct = distinct op-list text",
        "explanation": "Theorems over Model/Segments.v for all segment sequences (induction over the list, unbounded N); "
                       "model tied to segments.rs by lock-step differential execution of the extracted model and the real "
                       "Segments (hook cfdp_daemon::verif) with a set-union reference oracle on the implementation's outputs.",
        "level_text": "Full proof on the model: for every sequence of segments (any length, offsets up to 2^64) the list invariant, "
                      "cover = set union, returned counts = number of new distinct bytes, is_complete <-> [0,n) covered, and gaps = "
                      "maximal uncovered sub-ranges of any window are Coq theorems; the model is tied to segments.rs by lock-step "
                      "execution with bounded-exhaustive and random histories. This is the right level because the property quantifies "
                      "over all histories of a pure data structure.",
        "level_note": "Trusted: Coq kernel; extraction (ExtrOcamlBasic); OCaml driver and Rust harness printing; that the Vec binary "
                      "search picks the same position as the model's list walk is tested by the correspondence, not proved.",
        "assumptions": ["binary search on the sorted Vec selects the position of the model's list walk (compared on every run)",
                        "offsets < 2^64 so that u64 arithmetic does not wrap (segments are (offset, offset+len) of received PDUs)"],
    },
    "C14": {
        "props_files": ["C14"],
        "theorems": ["C14_all_chunkings", "C14_until_eof", "C14_null", "C14_modular", "C14_single_byte_change",
                     "C14_agree_iff_same", "C14_range"],
        "components": ["checksum"],
        "rule": "cases = one file content with several checksum calls (K: real File / Cursor / a Read+Seek adaptor returning scripted "
                "short reads; D: a pair of contents, identical or differing in one byte, read with two different chunkings); every length "
                "0..70 x 3 contents x every constant read size 1..9 + random sizes; lengths within 5 of 8192/16384 (thorough: up to 40960) "
                "with read sizes 8191/8192/8193/4097/mixed; random contents up to 40 KiB with mixed read sizes, 20% adversarial (early "
                "end-of-file reads, all-0xff / carry-propagating contents); bounded exhaustive: every chunking of every length <= 11 "
                "(thorough 14) into reads of 1..5 bytes; non-trivial = at least 2 operations; distinct = distinct op-list text",
        "explanation": "Theorems over Model/Checksum.v for all chunk lists and all contents (induction four bytes at a time, unbounded N "
                       "with the mod 2^32 written explicitly); model tied to filestore.rs by differential execution of the extracted model "
                       "and the real FileChecksum::checksum on files, cursors and a short-reading reader whose observed read sizes are "
                       "compared too; oracle = naive padded big-endian word sum on the implementation's outputs.",
        "level_text": "Full proof on the model: for every list of non-empty buffers handed out by the reader (any chunking, any total length "
                      "including 0 and non-multiples of 4) the buffer-by-buffer computation equals the CCSDS definition (zero-pad to a multiple "
                      "of 4, big-endian words, sum mod 2^32); Null is 0; two equal-length contents differing in exactly one byte have different "
                      "checksums, hence readers with different chunkings agree on identical data and disagree after a one-byte change. The model "
                      "is tied to filestore.rs by differential execution with scripted short reads, boundary lengths and bounded-exhaustive "
                      "chunkings. This is the right level because the property quantifies over all contents and all chunkings of a pure function.",
        "level_note": "Trusted: Coq kernel; extraction (ExtrOcamlBasic); OCaml driver and Rust harness printing; BufReader semantics (one read "
                      "call of at most 8192 bytes per fill_buf after consume(len); rewind discards the buffer) is modelled as the explicit chunk "
                      "list and cross-checked on every run by comparing the read sizes the adaptor observed with the ones the model was given.",
        "assumptions": ["the reader is well behaved: Ok(0) means end of file, data does not change while it is read",
                        "BufReader::fill_buf hands out exactly what one read call of the underlying reader returned (compared on every run)",
                        "bytes are < 256 (single-byte sensitivity is stated for byte values)"],
    },
    "C12": {
        "props_files": ["C12"],
        "theorems": ["C12_native_inside", "C12_native_idempotent", "C12_every_operation"],
        "components": ["path"],
        "rule": "cases = batches of names for one root. N: real get_native_path on every '/'-joined sequence of up to 5 (thorough 6) "
                "tokens of {a, b, ., .., '', /, <root>, <root>x} for root /vr/root, up to 4 tokens for the roots '/', '/r/', '//vr//root', "
                "every concatenation of up to 6 (thorough 7) symbols of {a, ., /, <root>}, and random names (20% malformed: control bytes, "
                "spaces, %, non-ASCII UTF-8); C: camino components of the name itself; F: every NativeFileStore operation (create/delete/"
                "rename/append/replace file, create/remove/list directory, open read/write/append, get_size, process_request x 9 actions) "
                "executed in a temporary sandbox T/{root, rootx, outside, top} on every sequence of up to 3 (thorough 4) tokens of "
                "{'', ., .., f, d, o, outside, <root>, <root>x, s, new} plus hand-written deeper attacks, with a recursive snapshot of "
                "everything outside root before/after; non-trivial = at least 2 operations; distinct = distinct op-list text",
        "explanation": "Theorems over Model/Path.v for every byte string as name and every absolute normal root (structural induction over the "
                       "string / component list); model tied to filestore.rs and to camino/std::path by differential execution (native path "
                       "strings and component lists compared); oracle on the implementation alone: the returned native path, resolved on the raw "
                       "string, must lie below the root, and no operation may create, change, remove or reveal anything outside root in the sandbox.",
        "level_text": "Full proof on the model (lexical; symbolic links excluded by assumption): for every absolute, already-normal root and every "
                      "name whatsoever, get_native_path returns the root's components followed by plain names only (no '..' or '.' left), hence "
                      "a path that resolves below the root; it is idempotent (string equality), so the double mapping inside process_request "
                      "changes nothing; every path handed to std::fs by any of the operations has the property. The model of std::path "
                      "(components, strip_prefix, push, pop) is tied to camino by exhaustive comparison over the property's alphabet. This is "
                      "the right level because the property quantifies over all names and all operations of a pure string function.",
        "level_note": "Trusted: Coq kernel; extraction; driver/harness printing; the Unix rules of std::path as modelled in Path.v (compared "
                      "exhaustively on the alphabet, not proved); lexical resolution as the meaning of a path (no symbolic links inside or "
                      "leading to the root). A relative or empty root is outside the theorem's hypothesis (such a store has no well-defined inside).",
        "assumptions": ["the filestore root is absolute and already normal ('/' followed by plain names)",
                        "no symbolic links: the kernel resolves '..' lexically",
                        "std::path/camino component rules are as modelled (compared on every run)"],
    },
    "C16": {
        "props_files": ["C16"],
        "theorems": ["C16_own_bytes_only", "C16_history_independent", "C16_buffer_size_kept", "C16_truncated_rejected"],
        "components": ["udp"],
        "rule": "cases = histories of datagrams sent over loopback UDP to ONE real UdpTransport (one receive buffer): for every PDU of a "
                "corpus (EOF, Finished with/without filestore responses, ACK, Metadata with TLVs, NAK, Prompt, KeepAlive, FileData "
                "unsegmented/segmented/empty; CRC on/off; small/large file flag) the PDU itself followed by EVERY truncation length of it; a long "
                "datagram (1000/9000/60000 bytes) followed by every truncation length of another PDU (thorough: every ordered pair of the corpus); "
                "random histories with 20% malformed datagrams (garbage, trailing junk, flipped bits); non-trivial = at least 2 datagrams; "
                "distinct = distinct op-list text",
        "explanation": "Theorems over Model/Udp.v for every decoder (the codec is a universally quantified function), every buffer content and "
                       "every sequence of datagrams of at most buffer size; model tied to transport.rs by running the extracted receive-buffer "
                       "model, instantiated with the real decoder's answers on isolated byte strings, against the real UdpTransport::receive on "
                       "127.0.0.1; oracle on the implementation alone: each datagram must decode exactly as its own bytes do in isolation, a "
                       "truncated valid PDU must be rejected.",
        "level_text": "Full proof on the model: for any decoder and any earlier traffic, receive() returns the decoding of exactly the bytes of the "
                      "current datagram (history independence by induction over the sequence of datagrams), and for any decoder that rejects "
                      "strict prefixes a datagram truncated in flight is rejected rather than completed with stale bytes. The model is tied to "
                      "transport.rs by differential execution over real loopback sockets with every truncation length of every corpus PDU after "
                      "longer datagrams. This is the right level because the property quantifies over all histories of a three-line buffer discipline.",
        "level_note": "Trusted: Coq kernel; extraction; driver/harness; the socket (a datagram of at most 65535 bytes is delivered whole into the "
                      "first n bytes of the buffer, n returned by recv_from). That the real PDU decoder rejects strict prefixes of valid PDUs is "
                      "observed on every run for the corpus, and is a codec property (C05/C06), not proved here.",
        "assumptions": ["a UDP datagram has at most 65535 bytes and recv_from writes it to the beginning of the buffer and returns its length",
                        "the decoder is a function of the bytes it is handed (no hidden state)"],
    },
    "C13": {
        "props_files": ["C13"],
        "theorems": ["C13_request_refines_spec", "C13_location_is_native_path", "C13_failed_request_changes_nothing", "C13_one_response_per_request_in_order",
                     "C13_first_failure_stops_execution", "C13_all_executed_without_failure", "C13_cases_exhaustive",
                     "C13_loop_total", "C13_tree_stays_tree", "C13_tx_loop_shape", "C13_tx_same_responses_everywhere",
                     "C13_tx_once", "C13_tx_sender_shows_responses", "C13_tx_finished_pdu_invariant_initial",
                     "C13_tx_finished_pdu_invariant", "C13_tx_finished_pdu_carries_responses"],
        "components": ["fsmodel", "recv", "send"],
        "rule": "Component recv (transaction clause): the lock-step scripts of the receive transaction, a quarter of which carry filestore "
                "requests in their Metadata PDU (create a file, make a directory; fresh names, so each succeeds once and would fail if run "
                "again) under all the perturbations of those scripts (lost / late / duplicated Metadata, cancel, suspend, faults); a "
                "response is printed as the request it answers and compared with the model's, its status and its effect on the real "
                "filestore are checked by the oracle. Component send: Finished PDUs delivered to the real send transaction, a third carrying filestore responses under various conditions; the oracle requires that the sending user's Finished indication shows as many responses as the PDU carried. Component fsmodel: cases = batches of request lists / request histories on a real NativeFileStore in a temporary directory initialised to "
                "{f1, f2, d1/, d1/f}. X: a whole request list carried by a Metadata PDU into a real RecvTransaction (unacknowledged, no file) "
                "and executed by the receiver's own fail-the-rest loop when the EOF arrives; statuses read from the Finished indication, then "
                "the sorted recursive listing with contents. Every list of up to 3 requests over 57 requests (6 single-name actions x "
                "{f1, f2, d1, d1/f, missing, nested/missing} + 3 two-name actions x 7 pairs); thorough adds every list of 4 over 28 requests; "
                "random lists of up to 30 requests (70% chosen to satisfy their precondition on the predicted state). Q: direct process_request "
                "histories of up to 30 requests with status and listing after every request, 20% adversarial names ('', '.', '..', trailing "
                "separators, a file used as a directory, absolute and root-prefixed names, spaces, non-ASCII); non-trivial = at least 2 "
                "operations; distinct = distinct op-list text",
        "explanation": "Theorems over Model/FsModel.v for every tree, every request and every request list (case analysis over the actions, "
                       "induction over the list); model tied to filestore.rs and recv.rs by differential execution of the extracted model against "
                       "the real NativeFileStore and the real RecvTransaction loop; oracle on the implementation alone: an independent Rust "
                       "transcription of the Blue Book's precondition/effect table applied to the listing observed before each request.",
        "level_text": "Full proof on the model, relative to the std::fs oracle: process_request returns exactly the status the declarative table "
                      "assigns to the current tree (success iff the precondition holds, the specific failure code otherwise), a successful "
                      "request changes exactly the locations the specification names, any other status leaves the tree unchanged; the loop returns "
                      "one response per request in order, executes the requests up to and including the first failure, reports every later one "
                      "NotPerformed without effect, and always terminates; trees stay well-formed. Tied to the code by bounded-exhaustive and "
                      "random request lists run through the real receiver loop. This is the right level for the filestore clauses of the property, "
                      "which quantify over all request sequences.",
        "level_note": "Transaction clause, theorems over Model/Recv.v and Model/Send.v for ANY filestore: the loop of finalize_receive executes the "
                      "requests left to right up to and including the first failure and reports the rest not-performed, one response per request "
                      "(C13_tx_loop_shape); the step that runs them hands the same list to the user's Finished indication, to the state the "
                      "Finished PDU is built from, and leaves the filestore the loop left (C13_tx_same_responses_everywhere); once the "
                      "receive-data phase is left no operation sequence changes the filestore or the recorded responses (C13_tx_once); a Finished "
                      "PDU handed to the send transaction yields a Finished indication with exactly its responses "
                      "(C13_tx_sender_shows_responses); invariant RQ over every operation: no Finished PDU is held ready while data is being "
                      "received, and one that is held ready - hence the one the send arm emits - carries exactly the recorded responses "
                      "(C13_tx_finished_pdu_*; needs the repaired unacknowledged EOF handler, fix 860603f, found while proving it). NOT a theorem: 'only in a finalisation that ends without error' (decided by the C13 "
                      "oracle of the recv stream on the real code; with an Ignore handler CFDP lets the finalisation continue after a fault). Trusted: Coq kernel; extraction; driver/harness; the behaviour of std::fs on a directory tree as modelled in "
                      "FsModel.v (compared with the real filesystem on every run, not proved); path resolution per C12.",
        "assumptions": ["std::fs behaves on the tree as modelled: no permission failures, no symbolic links, no concurrent modification, a failing "
                        "call changes nothing",
                        "the filestore root is absolute and already normal, and the directory containing it exists",
                        "Deny on a missing target reports NotAllowed (pinned by the repository's own tests)"],
    },
    "C15": {
        "props_files": ["C15"],
        "theorems": ["C15_clean_accepted", "C15_crc_affine", "C15_single_bit", "C15_double_bit_window", "C15_burst16",
                     "C15_odd_weight", "C15_frame_delimited_by_header", "C15_corrupt_rejected",
                     "C15_model_check_rejects", "C15_model_check_clean"],
        "components": ["crc"],
        "rule": "cases = (a) CRC values: 7 fixed vectors, seeded random messages of length 0..300 (all-zero / all-ones / boundary-octet / "
                "random contents), all 65536 two-octet messages, (state, octet) pairs through 3-octet messages (96 x 256 quick, all "
                "2^24 thorough); (b) per valid CRC-bearing PDU made by the real encoder (16 kinds: EOF with/without fault location, "
                "Finished plain / with filestore responses / with fault location, ACK of EOF / of Finished, Metadata with/without "
                "options, NAK with/without segment requests, Prompt, KeepAlive, file data unsegmented / segmented / long; both "
                "file-size flags; entity-id widths 1/2/4/8; plus a 40-option Metadata and a 30-request NAK) three cases: every "
                "single-bit flip at every bit >= 32, every pair of flips within a 40-bit window, burst patterns of <= 16 bits "
                "(exhaustive up to a length that depends on the frame size, seeded sample above it; long frames sampled in the quick "
                "tier), the same errors with other octets following the frame in the same arrival, the same PDU without the "
                "CRC (frame delimitation only), and errors outside the classes that break the CRC (scattered flips, replaced or "
                "exchanged octets, long bursts: the decoder must reject them because the check fails); non-trivial = at least 2 ops; distinct = distinct op-list text",
        "explanation": "Theorems over Model/Crc.v (the octet-wise CRC-16 routine of pdu.rs, over N with the u16 masks written out) for "
                       "messages and error patterns of every length; the finite parts (2^16 register states, 2^16 sixteen-bit words, "
                       "one orbit of 32766 shifts) are vm_compute sweeps lifted by forallb_forall with the bound in the statement. "
                       "The model is tied to pdu.rs by differential execution: verif_crc16 vs the extracted crc16, and real "
                       "PDU::decode on corrupted real encodings vs the extracted receiver_frame_check (frame_span from the header, "
                       "then crc_frame_ok) on the same octets, and the number of octets consumed vs receiver_consumed; an oracle independent "
                       "of the model (bit-serial reference CRC; 'decoded PDU differs from the original' / 'unaltered encoding not "
                       "accepted') evaluates the property itself on the implementation's outputs.",
        "level_text": "Full proof on the model, for frames and error patterns of unbounded length: an unaltered frame passes the receiver's "
                      "CRC check; a frame hit by any single-bit error, any double-bit error less than 32767 bit positions apart (the "
                      "window is shown tight by a counterexample at distance 32767), any non-zero error confined to 16 consecutive bits, "
                      "or any error of odd weight fails it; the frame the receiver delimits depends on the first four octets only; hence "
                      "every decoder that accepts a CRC-flagged PDU only if the octets it delimited pass the check rejects every such "
                      "corrupted PDU whose first four octets are intact (C15_corrupt_rejected, the decoder is a parameter with that one "
                      "hypothesis). That PDU::decode is such a decoder is by construction of the codec model's decoder and is tied to "
                      "the Rust code by the correspondence streams (real decode vs model frame check on every generated corruption). "
                      "This is the right level because the property quantifies over all PDUs and all errors of the classes.",
        "level_note": "Trusted: Coq kernel and vm_compute; extraction (ExtrOcamlBasic); OCaml driver and Rust harness (pattern "
                      "enumeration is implemented twice, once per side). Not proved here: that PDU::decode computes the CRC over "
                      "exactly the octets of the delimited frame and compares it with the last two (hypothesis decode_checks_crc of "
                      "C15_corrupt_rejected; established for the codec model by construction, for the Rust code by correspondence). "
                      "A panic of the decoder on a corrupted frame counts as a rejection here (panics are property C06) and is logged "
                      "as a NOTE line in oracle.txt.",
        "assumptions": ["PDU::decode, when the header's CRC flag is set, returns Ok only if crc16(header + data field octets as received) "
                        "equals the two octets that follow (true of the code after /repo commit dded641; compared on every run)",
                        "the error leaves the first four octets (flags, PDU data field length, id-length octet) unchanged, as the "
                        "property states; double-bit errors are covered when less than 32767 bit positions apart (always the case "
                        "for PDUs of up to 4095 octets)"],
    },
    "C05": {
        "props_files": ["C05"],
        "theorems": ["pdu_roundtrip", "pdu_len", "payload_len_announced", "header_roundtrip",
                     "uo_roundtrip", "uo_len", "report_roundtrip", "encodings_are_bytes"],
        "components": ["codec"],
        "rule": "cases = groups of <= 25 ops on the codec: E <PDU value> (encode + announced lengths), D <hex> (PDU::decode + "
                "re-encoding), EU/DU (UserOperation), ER/DR (daemon::Report); values in an s-expression syntax. Streams: header sweep "
                "(every version x type x direction x mode x crc x large x segctl x segmeta x id width x seq width), every enum value "
                "of every directive / TLV / status table / user operation x id widths 1/2/4/8 x both size flags x CRC on/off, seeded "
                "random well-formed values with boundary lengths 0/1/255 (63 for segment metadata) and boundary offsets, ~5% values "
                "outside the wire-format limits (truncation behaviour), decode of the valid encodings; non-trivial = at least 2 ops; "
                "distinct = distinct op-list text",
        "explanation": "Theorems over Model/Codec.v + Model/CodecUser.v for all well-formed values (unbounded N, any lengths); enum "
                       "discriminants come from Gen/Enums.v, regenerated from the Rust sources on every run, with injectivity / "
                       "bit-width side conditions re-decided by computation (Proofs/EnumsP.v). The model is tied to cfdp-core by "
                       "differential execution of the extracted model and the real encode/decode/encoded_len on the same values and "
                       "bytes, plus an independent oracle on the real code: decode(encode v) == v and encoded_len == bytes produced.",
        "level_text": "Full proof on the model: for every well-formed PDU (any header field combination, id widths 1/2/4/8, small and "
                      "large file-size encodings, CRC on or off, every directive, every metadata TLV, file data), every reserved user "
                      "operation and every status Report, decode(encode v) = v and the announced length equals the bytes produced are "
                      "Coq theorems; the model is tied to the Rust codec by byte-for-byte differential execution with exhaustive "
                      "discrete fields and generated remaining fields. This is the right level because the property quantifies over "
                      "all values of a pure function pair.",
        "level_note": "Trusted: Coq kernel; extraction (ExtrOcamlBasic); OCaml driver and Rust harness parsing/printing; the UTF-8 "
                      "validator of the model vs String::from_utf8 is compared, not proved. PDU::encoded_len returns u16: for PDUs "
                      "longer than 65535 bytes in total (data field > 65503 with the largest header) the Rust value overflows; the "
                      "theorem is over N and the streams stay below that size.",
        "assumptions": ["file names compare by bytes (stricter than Utf8PathBuf's component-wise ==)",
                        "whole-PDU encoded_len is compared only for PDUs of at most 65535 bytes (the API returns u16)"],
    },
    "C06": {
        "props_files": ["C06"],
        "theorems": ["decode_total", "decode_reads_bounded", "decode_canonical", "loops_fuel_independent",
                     "accepted_crc_frame", "per_type_decode_total",
                     "uo_decode_total", "uo_decode_canonical", "report_decode_total", "report_decode_canonical"],
        "components": ["codec"],
        "rule": "cases = groups of <= 25 ops; malformed stream: all byte strings of length <= 4 over {00,01,22,7f,80,ff} (PDU) and "
                "<= 3 (user operation after 'cfdp', Report), every truncation and every single-byte replacement by {00,01,7f,80,ff} of "
                "valid encodings of every PDU kind x size flag x crc, of every user operation and of Report, the header length field "
                "forced to {0,1,255,65535}, seeded random strings; the same (valid, valid + trailing bytes, truncations, replacements, "
                "short and random strings) for the public per-type decoders PDUHeader / Operations / FileDataPDU / MetadataTLV / "
                "VariableID / FileStoreRequest / FileStoreResponse with the number of bytes consumed; a corpus of 17 494 UTF-8 boundary "
                "file names; plus the well-formed streams of C05; non-trivial = at least 2 ops; "
                "distinct = distinct op-list text",
        "explanation": "Theorems over the same decode functions: total on all byte strings with an explicit Panic outcome for what the "
                       "dev profile checks (u8+1, u16-2, unwrap, oversize allocation), accepted values well-formed and canonical. "
                       "Tied to the real decoders by differential execution under catch_unwind with a counting allocator; oracle on "
                       "the real code: no panic, peak allocation bounded, re-encode/decode fixpoint.",
        "level_text": "Full proof on the model: for every byte string PDU::decode (and UserOperation::decode, Report::decode, the "
                      "per-type decoders) returns a value or an error, never the Panic outcome that models overflow checks, unwrap and "
                      "oversize reads; every read is bounded by 65535 bytes (stated on the instrumented read primitive); every accepted "
                      "PDU, with its length field recomputed, is well-formed and re-encodes to bytes that decode to itself. Termination "
                      "is by construction (structural recursion / fuel = buffer length). The allocation bound on the real code is "
                      "measured per decode, not proved.",
        "level_note": "Trusted: Coq kernel; extraction; OCaml driver and Rust harness; catch_unwind and the counting global allocator "
                      "(measurement: peak heap growth per decode <= 64 KiB + 3 x input length + 4 KiB).",
        "assumptions": ["inputs are byte strings (list N with every element < 256)",
                        "heap growth of the real decoder is measured, not proved"],
    },
}

# ---- transaction-level properties (components recv / send) -----------------------------------
_TX_RULE = ("cases = lock-step scripts against one real RecvTransaction / SendTransaction on tokio's paused clock: a "
            "plausible exchange (random file 0..6 segments incl. zero runs and checksum-neutral word pairs, segment sizes "
            "16..49 (multiples of 4 and not), both modes, closure on/off, CRC on/off, immediate/deferred NAK x delay 0/50/700 ms, limits 1..4, "
            "timeouts 1..9 s, random fault-handler map) perturbed by drops, duplicates, swaps, stray PDUs, user requests "
            "(cancel/suspend/resume/report/abandon/prompt), time advances landing just before/on/after each deadline; "
            "one observation per operation (result class, emitted PDUs, indications, state, has_pdu_to_send, until_timeout, "
            "progress, destination file); non-trivial = at least 2 operations; distinct = distinct op-list text")
_TX_EXPL = ("Theorems over the hand-written Gallina models Model/Recv.v / Model/Send.v (every function of recv.rs / send.rs, "
            "branch for branch, with the filestore and checksum as parameters), for all operation sequences and time "
            "stamps. The models are tied to the code by lock-step differential execution of the extracted models against the "
            "real transaction objects (hooks under cfg cfdp_verif), with the property's own oracle evaluated on the "
            "implementation's outputs.")
_TX_NOTE = ("Trusted: Coq kernel; extraction (ExtrOcamlBasic); OCaml driver and Rust harness (parsing/printing); tokio's paused "
            "clock standing for std::time::Instant (hook in timer.rs); the model-to-code correspondence is tested on generated "
            "scripts, not proved. The select! loops, channels and task scheduling of lib.rs are outside the model: SEND / "
            "TIMEOUT operations are executed exactly when the loop's arm would be enabled.")
_TX_ASSUME = ["timeouts > 0 (a zero timeout makes Counter::update spin; configuration guard)",
              "segment size >= 4 * file-size-field length (NAK minimum) and <= 65527",
              "source file unchanged during the transfer; temporary-file and source-file I/O does not fail",
              "commands are delivered to a transaction only while its loop runs (state not Terminated)"]

def _tx(props_file, theorems, comps, level_text, extra_note=""):
    return {"props_files": [props_file], "theorems": theorems, "components": comps, "rule": _TX_RULE,
            "explanation": _TX_EXPL, "level_text": level_text, "level_note": _TX_NOTE + extra_note,
            "assumptions": _TX_ASSUME}

PROPS["C04"] = _tx("C04", ["C04_delivery_is_final", "C04_no_integrity_failure_after_success",
                           "C04_step_changes_filestore_only_when_ending", "C04_filestore_changes_at_most_once",
                           "C04_late_file_data_ignored", "C04_late_eof_only_acknowledged"], ["recv"],
    "Proof on the receive-transaction model for every operation sequence: once the receive-data phase is left the "
    "filestore (delivered file, effects of filestore requests) never changes again and finalisation cannot recur; a step that "
    "changes the filestore ends the data phase or the transaction, so in any history run the way the loop runs it (stopping at "
    "Terminated, which covers the unacknowledged transfer without closure) the filestore changes at most once; after a "
    "successful delivery no later output reports FileChecksumFailure/FilesizeError. Lock-step correspondence with the real "
    "RecvTransaction plus an implementation-side oracle (file unchanged, no second Finished, no integrity fault).",
    " The clause 'a sending entity reports success only for a transaction its receiver reported as delivered' is a "
    "system-level statement (the only source of Finished PDUs is the receiver); it is covered by the sender model taking "
    "its Finished indication from the received Finished PDU, not by a separate theorem. Re-spawn of an already ENDED "
    "transaction by the daemon is C11's.")
PROPS["C10"] = _tx("C10", ["C10_cancel_effect", "C10_no_file_after_cancel", "C10_peer_cancel", "C10_user_cancel_ends_data",
                           "C10_cancelled_sender_sends_no_data"], ["recv", "send"],
    "Proof (safety half) on the receive-transaction model: a user cancel or a peer cancel (EOF with an error condition) "
    "moves to the Cancelled phase with the cancel condition, and from then on no operation sequence writes the filestore - "
    "a partial file is never exposed; on the send-transaction model: a user cancel in any phase moves to Cancelled and from there "
    "(or from the phase entered on a Finished PDU) no operation - NAKs included - makes the sender transmit file data or Metadata "
    "again. Lock-step correspondence for receiver and sender plus oracles on the real code "
    "(destination must not appear or change after a cancel that preceded delivery; no file data after a user cancel; an EOF(cancel) goes out).",
    " Termination of the cancel handshake within the limits is the subject of C03 (partial); 'at the peer too when "
    "reachable' needs the two-machine composition and is exercised by the lock-step scripts only.")

PROPS["C17"] = _tx("C17", ["C17_limit_after_reset", "C17_limit_after_restart", "C17_count", "C17_paused_frozen",
                           "C17_receiver_dispatch", "C17_sender_dispatch", "C17_no_inactivity_fault_before_limit",
                           "C17_no_ack_fault_before_limit", "C17_sender_expiry_marks_eof", "C17_sender_no_expiry_quiet",
                           "C17_sender_one_eof_per_mark", "C17_receiver_expiry_marks_finished",
                           "C17_receiver_one_finished_per_mark", "C17_nak_round_progress_resets",
                           "C17_nak_round_repeats_below_limit", "C17_sender_ack_clears_count",
                           "C17_sender_pdu_clears_inactivity"], ["recv", "send"],
    "Proof: closed form of the Counter (count = min(max, elapsed/timeout)), the limit is reached exactly at "
    "t0 + max*timeout after a reset and after (max-count) further periods after a restart, paused timers never move; "
    "the fault-handler dispatch of both machines (action = configured one, default cancel; ignore leaves phase/state/"
    "timers untouched, suspend suspends, abandon terminates at once); no inactivity / positive-ACK fault before the "
    "limit; one EOF (sender) / Finished (receiver) retransmission per ACK-timer expiration below the limit. Tied to timer.rs / recv.rs / send.rs by lock-step scripts whose time advances land just before, on and "
    "after each deadline.",
    " The emission schedule is stated per event (an ACK-timer expiration below the limit marks the EOF / Finished PDU and declares "
    "nothing; the send arm emits exactly the marked PDU once and clears the mark; no expiration, no mark); the closed-loop "
    "sentence 'k expirations, k retransmissions' over a whole idle run is not a separate theorem (exercised by the lock-step "
    "scripts); for the receiver's NAK rounds: progress resets the count, a round without progress below the limit keeps it and emits one NAK. Counter::update's while loop is modelled by its closed form (timeout > 0).")
PROPS["C19"] = _tx("C19", ["C19_receiver_silent", "C19_sender_silent", "C19_paused_timers_do_not_count", "C19_sender_resume_fresh",
                           "C19_receiver_resume_picks_up"], ["recv", "send"],
    "Proof for both machines: in a suspended state the send arm and the timeout arm of the loop are disabled for any "
    "suspension length, and no operation whatsoever (received PDUs included) emits a PDU or declares a timer-limit "
    "fault; paused timers do not count suspended time, and a resumed send transaction starts its timers afresh "
    "(zero expirations, next deadline a full period away). Lock-step correspondence plus an oracle on the real code "
    "(no PDU / no timer fault while suspended, has_pdu_to_send false, until_timeout MAX; after a resume no limit fault "
    "within less than a period and no deadline shorter than a period).",
    " 'After resume the transfer continues and completes exactly as an unsuspended one would' is inherited from C02 "
    "and not claimed as a theorem (partial).")
PROPS["C20"] = _tx("C20", ["C20_receiver_progress_invariant", "C20_receiver_progress_initial",
                           "C20_receiver_outputs_carry_progress", "C20_sender_progress_step",
                           "C20_keepalive_carries_progress"], ["recv", "send", "segments"],
    "Proof: receiver progress = total of the well-formed segment list (= distinct bytes held, by C09) in every reachable "
    "state, and the Fault/Abandon/Resumed/KeepAlive outputs carry that value; sender progress after every step = max of "
    "the previous progress and the highest end offset of the file data PDUs emitted (hence the highest offset transmitted "
    "so far, monotone, and with C07 never beyond the file size). Lock-step correspondence plus oracles recomputing both "
    "figures independently from the observed PDUs.")
PROPS["C07"] = _tx("C07", ["C07_initial", "C07_every_step", "C07_nak_split_wellformed", "C07_file_data_correct",
                           "C07_eof_truthful", "C07_first_pass_covers", "C07_first_pass_in_order", "C07_headers_initial",
                           "C07_headers_every_step"], ["send"],
    "Proof on the send-transaction model, for all file contents, segment sizes > 0, and operation sequences (NAKs of any "
    "shape, at any time): every file data PDU emitted carries exactly the file's bytes at its offset, is non-empty, at most "
    "one segment long and inside the file; NAK requests are cut to the file and to the segment size; EOF carries the "
    "stored size and the checksum of the file; over every history (NAKs interleaved with the first pass, timeouts, suspensions), "
    "once an EOF saying 'no error' has been emitted every byte of the file has been emitted in a file data PDU (the first pass "
    "covers the file: retransmissions do not disturb its cursor). Lock-step correspondence with the real SendTransaction and an oracle that "
    "re-checks every emitted PDU (bytes, offsets, sizes, names, checksum, header ids/mode/direction, length field = "
    "encoded payload length).",
    " Not stated as theorems (exercised by the lock-step stream only): 'the first pass sends each byte once, in order' "
    "(coverage before the EOF and the in-order, one-PDU-per-run tiling step of the first pass ARE theorems). Direction, destination entity and "
    "length field of every emitted PDU ARE theorems (C07_headers_*: o_len = the model's payload_len formula, which is compared with "
    "the real encoded_len on every emitted PDU); the transaction's id fields (source entity, sequence number) are not part of the model's PDU record: '"
    "'every emitted PDU carries the transaction's ids / a length field equal to its payload' (the model computes the length "
    "with its own payload_len formula, compared with the real encoded_len on every emitted PDU).")

PROPS["C18"] = _tx("C18", ["C18_receiver_initial", "C18_receiver_oneway", "C18_complete_only_if_all_received",
                           "C18_sender_invariant", "C18_sender_oneway", "C18_sender_waits_with_closure",
                           "C18_sender_reports_finished"], ["recv", "send"],
    "Proof on both models: in unacknowledged mode the receiver's invariant (nothing but a Finished PDU can ever be queued, "
    "and that only with closure) is inductive over every operation and the only PDU a step can emit is Finished-with-"
    "closure; the delivery code of a finalisation is Complete exactly when metadata and all bytes are present; the sender "
    "never enters the ACK-of-Finished phase, emits only Metadata / file data / EOF (/Prompt), ends on EOF without closure, "
    "stays open with closure and ends on the Finished PDU reporting its outcome. Lock-step correspondence and oracles on "
    "the real code (no ACK/NAK/KeepAlive in unacknowledged mode, closure wait, complete only if everything received).",
    " 'up to its limits' (termination of the closure wait by the ACK/inactivity limits) is C03's.")

PROPS["C08"] = _tx("C08", ["C08_queue_initial", "C08_queue_invariant", "C08_requests_inside_scope", "C08_nak_fits",
                           "C08_exactly_what_is_missing", "C08_deferred_no_unsolicited_nak", "C08_immediate_gap_requested",
                           "C08_immediate_expired_requests_all", "C08_delayed_gap_requested_if_it_persists"], ["recv", "segments"],
    "Proof on the receive-transaction model (acknowledged mode), for every operation sequence: the NAK queue holds only "
    "non-empty ranges and the 0-0 marker (the marker only while metadata is missing); every request of a NAK PDU lies inside "
    "its scope and the PDU fits segment size + 1; after EOF the computed list is exactly the complement of the held bytes in "
    "[0, file size) plus the metadata marker (via C09); under the deferred procedure nothing is queued and no NAK is emitted "
    "before EOF unless prompted. Lock-step correspondence with the real RecvTransaction and an oracle on every emitted NAK "
    "(well-formedness, scope, size, file bound, deferred rule, exactness of the post-EOF NAK batch).",
    " The immediate-procedure clause: detection IS a theorem (C08_immediate_gap_requested: the gap revealed by data beyond the "
    "previous end is queued at once with zero delay, put under a delay timer otherwise); 'requested after the delay if it "
    "persists' too (C08_delayed_gap_requested_if_it_persists: what is still missing inside the window when the delay has elapsed); 'inside the "
    "file' for requests queued before EOF holds when the peer sent no data beyond the EOF size (else FilesizeError).")

PROPS["C01"] = _tx("C01", ["C01_staged_file_is_source", "C01_store_is_stage_step", "C01_delivered_file_is_staged_file",
                           "C01_complete_only_if_all_received", "C01_sender_emits_truthful_data", "C01_receiver_history",
                           "C01_receiver_initial", "C01_receiver_step", "C01_sender_directives_truthful",
                           "C01_sender_reports_what_it_was_told", "C01_system"],
                   ["recv", "send", "segments", "checksum"],
    "Proof. (receiver) an invariant of the receive-transaction model kept by EVERY operation on truthful inputs (file data "
    "carrying the source's bytes in any order, duplication, overlap, re-segmentation; the sender's Metadata; a NoError EOF "
    "stating |f|; everything else unconstrained): over every history, if the transaction ever emits a Finished indication "
    "or Finished PDU saying Retained/Complete, the filestore (abstract: any write/lookup pair where a successful write is "
    "visible) holds exactly the source file under the destination name - no appeal to the checksum, so checksum-neutral "
    "contents and the null checksum are covered; (sender) every file data PDU is truthful (C07), every Metadata PDU is the "
    "sender's metadata, every EOF states its size, the file never changes; (composition) in the two-machine system "
    "Model/Link.v, after any script of link behaviour (deliver any PDU in flight, duplicate, drop, cut a direction), user "
    "requests at either end and time, every PDU in flight towards the receiver is truthful, every Finished PDU in flight "
    "that says Retained/Complete is backed by the delivered file, and a success claim of the RECEIVE transaction as well as a "
    "success indication of the SEND transaction (which only repeats a Finished PDU it was handed) implies destination == source. Lock-step correspondence for both machines and for the pair (component link), plus "
    "oracles on the real code: a successful Finished indication at either end implies destination == source.",
    " PARTIAL: (i) the filestore of the system theorem is the flat instance (name -> content) of the abstract filestore of the "
    "receiver theorem; (ii) metadata with filestore requests is excluded from "
    "the theorem (they may legitimately rename/delete the file); (iii) real task interleavings and the daemon's routing are "
    "outside the model; (iv) a receive transaction re-spawned by the daemon for stray PDUs after the original ended is C11.")

PROPS["C03"] = _tx("C03", ["C03_receiver_invariant", "C03_receiver_initial", "C03_receiver_never_stuck",
                           "C03_sender_invariant", "C03_sender_initial", "C03_sender_never_stuck",
                           "C03_timer_limit_in_bounded_time", "C03_receiver_timers_invariant", "C03_receiver_timers_initial",
                           "C03_receiver_no_spin", "C03_sender_timers_invariant", "C03_sender_timers_initial",
                           "C03_sender_no_spin", "C03_sender_send_arm_progress", "C03_receiver_send_arm_progress"], ["recv", "send"],
    "Proof (PARTIAL): for every reachable state of both machines an active transaction is never stuck - the send arm is "
    "enabled or a timer with a finite deadline runs (this is the invariant whose failure was the pinned defect: a cancelled "
    "sender whose EOF had been acknowledged waited forever); every running timer reaches its limit after exactly max_count "
    "periods and the limit's handler cancels/abandons (C17); no spinning - under invariants kept by every operation (all timer "
    "periods positive, ACK timer stopped while data is received, sender NAK timer never started) the timeout arm run at any "
    "instant leaves the transaction inactive, or with something to send, or with its next deadline strictly in the future "
    "(the repaired NAK-timer spin violated exactly this); the send arm never spins either - whenever has_pdu_to_send enables it, "
    "one run of send_pdu emits at least one PDU/indication or (sender) consumes one queued retransmission request. Lock-step correspondence including idle drives (the loop left "
    "alone after any prefix of an exchange: send while enabled, else sleep to the next deadline and run the timeout arm) "
    "compared step by step with the model, and an oracle on the real code: the drive must reach Terminated, never get stuck, "
    "and do so within (3*max_count+3)*max timeout + NAK delay of silence.",
    " NOT mechanised: the closed-form bound for the whole run (ranking over the limit rounds of the successive phases; the per-run "
    "progress of the send arm IS a theorem, the bound on how many send runs fit between two timeouts is not); the "
    "daemon serving other transactions meanwhile (C11); transport back-pressure (a link that never accepts a PDU).")

_LINK_RULE = (" Component `link`: one real SendTransaction and one real RecvTransaction joined by a scripted link on the paused "
              "clock (deliver any PDU in flight, duplicate, drop, cut a direction for good, user requests, time advances, and "
              "`RUN n` = both select! loops left alone on a loss-free link: send arms, deliveries in order, sleep to the earliest "
              "deadline, timeout arms), compared operation by operation with the extracted two-machine system Model/Link.v; "
              "scripts: ~50% bounded faults (fewer than max_count drops in total, any number of duplicates/reorderings, no time "
              "passes while a PDU is in flight; files of 0, 1, seg-1, seg, seg+1, k*seg bytes incl. zero runs and checksum-neutral "
              "words), ~30% blackout / unbounded loss / user cancel, ~20% free (suspend/resume/prompt/report, random handlers).")
PROPS["C02"] = dict(_tx("C02", ["C02_one_clean_round_suffices", "C02_any_order_any_duplication", "C02_pieces_cover_request",
                                "C02_requests_exactly_what_is_missing", "C02_timer_gives_up_only_at_limit",
                                "C02_closing_receiver_completes", "C02_closing_sender_acks_and_ends",
                                "C02_closing_receiver_ends_on_ack", "C02_metadata_marker_kept",
                                "C02_metadata_retransmitted_on_marker", "C02_request_answered"], ["link", "recv", "send"],
    "Proof (PARTIAL) of the recovery argument at the data level: from ANY well-formed state of the receiver's bookkeeping and "
    "any file size, the requests the receiver computes (exactly what is missing, C08) answered with the pieces the sender cuts "
    "them into (C07) complete the file - in any order, with any duplication, an empty file and a missing first segment "
    "included; the retransmission timers give up only after max_count whole periods (C17); the closing steps (a receiver that misses nothing "
    "finalises at once with a Finished PDU ready; a sender handed it reports, ACKs and terminates; the receiver terminates on that "
    "ACK). The property itself - for every "
    "placement of fewer than max_count faults the transfer completes at both ends with destination == source - is the oracle "
    "of the `link` correspondence stream, evaluated on the REAL pair of transactions and compared step by step with the "
    "extracted system model.",
    " NOT mechanised: the liveness composition over the two-machine system (a global ranking over in-flight PDUs and timer "
    "rounds); it is explored by the link stream only (bounded, supporting evidence - not a theorem). The daemon's routing "
    "and real task scheduling are outside the model."))
PROPS["C02"]["rule"] = _TX_RULE + _LINK_RULE
for _p in ("C01", "C03"):
    PROPS[_p]["components"] = PROPS[_p]["components"] + ["link"]
    PROPS[_p]["rule"] = PROPS[_p]["rule"] + _LINK_RULE

PROPS["C11"] = {
    "props_files": ["C11"],
    "theorems": ["C11_put_ids_distinct", "C11_put_counter", "C11_forward_frame", "C11_stray_to_sender_discarded",
                 "C11_no_transport_discarded", "C11_unknown_to_receiver_spawns", "C11_command_frame",
                 "C11_cleanup_only_removes", "C11_receiver_addresses_only_its_peer", "C11_receiver_addresses_initial",
                 "C11_sender_addresses_only_its_peer", "C11_history_put_ids_distinct", "C11_history_put_ids_own"],
    "components": ["daemon"],
    "rule": ("cases = scripts against TWO real Daemons (entities 1 and 2; entity 3 has no transport anywhere) whose three handlers "
             "(forward_pdu, process_primitive, cleanup_transactions) are called one at a time through cfg(cfdp_verif) hooks on "
             "tokio's paused clock, joined by in-memory transports the script controls; the transactions they spawn are the real "
             "tokio tasks. Scripts: 2-14 overlapping Put requests in both directions in mixed modes with distinct destination "
             "files (some for a missing file, some to the transport-less entity), PDUs moved in bursts, stray PDUs of 9 kinds with "
             "unknown ids in both directions (some naming entity 3), replays of PDUs delivered earlier, cleanups, small time "
             "steps; 60% clean, 20% lossy (drops/duplicates/long delays), 10% user commands at either end, 10% sequence-number "
             "wrap-around (1-byte ids starting near 255); every script ends with the daemons left alone until quiescence, then one "
             "more Put that must complete. Every handler call is one event (with the two run-time facts routing depends on: "
             "channel closed, file exists) replayed through the extracted Model/Daemon.v; result class, both routing tables and "
             "both sequence counters must agree after every event. non-trivial = at least 2 events; distinct = distinct op-list text"),
    "explanation": ("Theorems over Model/Daemon.v, the routing core of lib.rs (table of registered transactions keyed by (source entity, "
                    "sequence number), sequence counter, transports), for all tables and PDU headers. Tied to the code by replaying "
                    "every handler call the real daemons make through the extracted model, and by the property's own oracle on the "
                    "real daemons: ids of Put requests distinct; each transaction that reports success delivered ITS source to ITS "
                    "destination; in clean scripts every transaction completes at both ends although strays and replays are mixed "
                    "in; the metadata a transaction receives is its own; after the final run no transaction is left registered "
                    "(stray-spawned receive transactions ended by their own limits); a fresh transfer afterwards completes (the "
                    "daemon keeps serving)."),
    "level_text": ("Proof (PARTIAL) on the routing model: up to 2^(8w) consecutive Put requests get pairwise distinct ids - also over every "
                   "history of handler calls in between (PDUs forwarded, strays, commands, clean-ups), and all carry this daemon's entity id; a PDU reaches, "
                   "creates or replaces only the transaction registered under its own (source entity, sequence number) and leaves every "
                   "other registration and the counter untouched; a response for a sender that does not exist and a PDU naming an "
                   "entity without transport change nothing and yield only a logged warning; a ToReceiver PDU with an unknown id "
                   "registers a receive transaction under exactly that id (which ends by its own limits, C03); user commands reach only "
                   "the transaction they name; cleanup only removes; on the transaction models: every PDU a receive (send) transaction ever "
                   "emits is directed to the sender (receiver) side and handed to the transport of its own source (destination) entity, with "
                   "a truthful length field, and its configuration never changes. Event-by-event correspondence with two real daemons plus the "
                   "property's oracle on them."),
    "level_note": ("Trusted: Coq kernel; extraction (ExtrOcamlBasic); OCaml driver and Rust harness; tokio's paused clock and current-thread "
                   "scheduler. NOT mechanised / outside the model: the behaviour of the transaction tasks (they are the real ones; their "
                   "models are Recv.v/Send.v/Link.v), interference through the runtime (channel capacities 100/10/1, a task that panics, "
                   "tokio fairness, select! order inside manage_transactions - the hooks call its three handlers directly), the transport "
                   "tasks and UDP, id widths (all ids of a configuration have one width), wrap-around of the counter onto a LIVE "
                   "transaction after 2^(8w) Puts (HashMap::insert would replace its registration; inherent to a w-byte sequence "
                   "number, not counted as a finding). Which registrations a cleanup removes is an input of the model (decided by task "
                   "completion). Forged PDUs carrying the id of a live transaction are outside the property."),
    "assumptions": ["all entity ids and sequence numbers of one configuration are encoded with the same width",
                    "fewer than 2^(8w) Put requests while a transaction of the same entity is alive",
                    "timeouts >= 1 s, max_count >= 1 (as for the transaction properties)"],
}
