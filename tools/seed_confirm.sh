#!/bin/bash
# seed_confirm.sh <id> "<demo command>"
# Confirms a seeded change in its scratch worktree /work/mut/<id> (patch applied, demo present):
#  1. the repository's own suite still passes with the change (same pass set as the baseline),
#  2. the demonstration fails with the change and passes without it.
# Writes /verif/seeded/<id>/{patch.diff,demo/,meta.json,confirm.log}
id=$1; demo=$2; wt=/work/mut/$id; out=/verif/seeded/$id
mkdir -p $out; cp $wt/out/patch.diff $out/; cp -r $wt/out/demo $out/ 2>/dev/null; cp $wt/out/meta.json $out/agent_meta.json
export CARGO_NET_OFFLINE=true CARGO_TARGET_DIR=$wt/target
cd $wt
{
echo "== suite with the change"; cargo nextest run --workspace --no-fail-fast --offline 2>&1 | grep -E "FAIL|Summary" | sort -u
echo "== demo with the change (must fail)"; bash -c "$demo" 2>&1 | tail -6; echo "rc=$?"
# (no git stash: refs/stash is shared by all worktrees of /repo)
git apply -R $out/patch.diff; echo "== demo without the change (must pass)"; bash -c "$demo" 2>&1 | tail -6; 
git apply $out/patch.diff
echo "== restored: $(git diff --stat | tail -1)"
} > $out/confirm.log 2>&1
tail -25 $out/confirm.log
