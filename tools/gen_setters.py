#!/usr/bin/env python3
"""Prints Coq setter definitions for a record: gen_setters.py <ctor> <statevar-type> f1 f2 ...
(development aid; its output is pasted into the model files and committed)"""
import sys
ctor, ty, fields = sys.argv[1], sys.argv[2], sys.argv[3:]
for f in fields:
    args = " ".join(("v" if g == f else "(%s s)" % g) for g in fields)
    print("Definition set_%s v (s : %s) : %s := %s %s." % (f, ty, ty, ctor, args))
