#!/bin/bash
# tools/seedq.sh (copy to a scratch dir; serialises the /repo patching with flock /work/repo.lock)
# seedq.sh <id> "<demo cmd>" <checks...> : confirm, then (serialised by a lock, since it patches /repo) try, then meta
id=$1; demo=$2; shift; shift
cd /verif
[ -f seeded/$id/confirm.log ] || tools/seed_confirm.sh $id "$demo" > /tmp/confirm_$id.log 2>&1
flock /work/repo.lock tools/seed_try.sh $id "$@" > /tmp/try_$id.log 2>&1
python3 tools/seed_meta.py $id "$demo" > /tmp/meta_$id.log 2>&1
echo "SEED $id finished" >> /work/seedq.log
