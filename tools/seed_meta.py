#!/usr/bin/env python3
"""seed_meta.py <id> "<demo cmd>" : writes seeded/<id>/meta.json from agent_meta.json, confirm.log and
the LAST run recorded in detect.log."""
import json, sys, re, os
sid, demo = sys.argv[1], sys.argv[2]
d = os.path.join(os.path.dirname(os.path.abspath(__file__)), '..', 'seeded', sid)
a = json.load(open(os.path.join(d, 'agent_meta.json')))
runs = open(os.path.join(d, 'detect.log')).read().split('== ./check ')
last = {}
for r in runs[1:]:
    prop = r.split()[0]
    last[prop] = r            # the last run of each check wins
viol = []
for prop, r in last.items():
    viol += [l for l in r.splitlines() if l.startswith('VIOLATION')]
m = {
 "property": a.get("property", sid),
 "breaks": a.get("summary") or a.get("breaks"),
 "needs": a.get("needs"),
 "origin": "written by an independent sub-agent that was given only the property text and a scratch worktree of the repository",
 "confirmed_by_me": {
  "how": "tools/seed_confirm.sh in the scratch worktree (see confirm.log): the repository's suite with the change fails only the added demonstration and the baseline flakes f1s08/f1s09/f1s10; the demonstration fails with the change and passes without it",
  "demo_cmd": demo },
 "detection": {
  "how": "tools/seed_try.sh: patch applied to /repo, ./check run, patch undone (see detect.log; the last recorded run of each check counts)",
  "checks": sorted(last.keys()),
  "violation_lines": viol[:6],
  "caught_with_failing_input": any('no-failing-input-found' not in v for v in viol) } }
json.dump(m, open(os.path.join(d, 'meta.json'), 'w'), indent=1)
print(sid, m["detection"]["checks"], len(viol), m["detection"]["caught_with_failing_input"])
