#!/bin/bash
# seed_try.sh <id> <property checks...>: apply the seeded change of /work/mut/<id> (or /verif/seeded/<id>) to /repo,
# run the given checks, undo. Appends the outcome to /verif/seeded/<id>/detect.log
id=$1; shift
p=/verif/seeded/$id/patch.diff; [ -f $p ] || p=/work/mut/$id/out/patch.diff
mkdir -p /verif/seeded/$id
cd /verif
git -C /repo apply $p || { echo "patch does not apply"; exit 2; }
for c in "$@"; do
  echo "== ./check $c with seeded change $id" | tee -a /verif/seeded/$id/detect.log
  timeout 1500 ./check $c 2>&1 | grep -E "VIOLATION|KNOWN|tier" | tee -a /verif/seeded/$id/detect.log
  for f in out/${c}_*.replay; do [ -f "$f" ] && { echo "--- $f"; head -12 $f; } >> /verif/seeded/$id/detect.log; done
done
git -C /repo checkout -- .
git -C /repo status --short | head -3
